"""Nondeterministic zlib decompressobj contract driven by an oracle tape (list of symbolic ints).

``decompress(data, max_length)`` consumes k and produces m bytes, both drawn from the tape and constrained only by what
zlib documents and what was measured on real zlib: output <= max_length when positive; all offered input is consumed
unless the limit was hit; when the limit is hit k may be anything in [0, len(data)] (INCLUDING 0: real zlib serves small
reads from pending output); the rest goes to unconsumed_tail; eof exactly when the last stream byte is consumed, which
implies all output was delivered; data after the end goes to unused_data; anything that is not the continuation of the
one stream raises the codec error.  An out-of-contract or exhausted draw discards the path (``Vacuous``).
"""
from vf.menv import EMPTY, DataDependence, MemStream, Seg
from disk_objectstore.utils import PackedObjectReader, ZlibLikeBaseStreamDecompresser  # noqa: F401


class ZErr(Exception):
    pass


class Vacuous(BaseException):
    """the tape values do not satisfy the contract: discard the path"""


class Tape:
    def __init__(self, vals):
        self.vals, self.i = vals, 0

    def draw(self, lo, hi):
        if self.i >= len(self.vals):
            raise Vacuous()
        v = self.vals[self.i]
        self.i += 1
        if not (lo <= v <= hi):
            raise Vacuous()
        return v


class ZTok:
    """an abstract compressed stream: `total` compressed bytes that inflate to `content`"""

    def __init__(self, content, total):
        self.content, self.total = content, total


class NDDecompressObj:
    tape = None

    def __init__(self):
        self.z = None
        self.c = 0  # compressed bytes consumed so far
        self.p = 0  # plain bytes produced so far
        self.unconsumed_tail = EMPTY
        self.unused_data = EMPTY
        self.eof = False

    def decompress(self, data, max_length=0):
        if not isinstance(data, Seg):
            if len(data) == 0:
                data = EMPTY
            else:
                raise DataDependence('concrete compressed data')
        if self.eof:
            self.unused_data = self.unused_data + data
            self.unconsumed_tail = EMPTY
            return EMPTY
        if len(data.ext) == 0:
            self.unconsumed_tail = EMPTY
            return EMPTY
        if len(data.ext) != 1:
            raise ZErr('corrupt')
        z, lo, hi = data.ext[0]
        if not isinstance(z, ZTok) or (self.z is not None and z is not self.z) or lo != self.c:
            raise ZErr('corrupt')
        self.z = z
        n = len(z.content)
        avail = min(hi, z.total) - lo
        k = self.tape.draw(0, avail)
        m = self.tape.draw(0, n - self.p)
        limited = max_length > 0 and m == max_length
        if max_length > 0 and m > max_length:
            raise Vacuous()
        if not limited and k != avail:
            raise Vacuous()  # all offered input is consumed unless the output limit was hit
        if self.c + k == z.total and self.p + m != n:
            raise Vacuous()  # end of stream => all output delivered
        if self.c + k == 0 and m != 0:
            raise Vacuous()
        if k == 0 and m == 0:
            raise Vacuous()  # zlib makes progress when it has input and room for output
        if self.p + m == n and not limited and self.c + k != z.total and avail == z.total - lo:
            raise Vacuous()
        out = z.content[self.p : self.p + m]
        self.c += k
        self.p += m
        self.eof = self.c == z.total
        rest = Seg([(z, lo + k, hi)])
        if self.eof:
            self.unconsumed_tail = EMPTY
            self.unused_data = rest
        else:
            self.unconsumed_tail = rest
        return out


class NDDecompresser(ZlibLikeBaseStreamDecompresser):
    @property
    def decompressobj_class(self):
        return NDDecompressObj

    @property
    def decompress_error(self):
        return ZErr
