"""Timeline world (rely/guarantee): the actor under test (a reader) runs for real; the loose writers and the packer are
not executed -- each of their externally visible effects on an object is a symbolic instant, compared with the reader's
own step counter at every file-system / SQL observation it makes.

Rely (what the other actors guarantee; each clause is what C05/C06 cells establish for the packer/writer sequentially):
  t_w <= t_p < t_c < t_u : loose file complete at t_w (atomic rename), pack bytes visible at t_p, index row committed at
  t_c, loose file unlinked at t_u (possibly never).
"""
import pathlib

from . import menv
from .menv import EMPTY, Engine, Func, MObj, Result, Seg, StatResult, select, text
from .world import fresh_modules

VROOT = menv.VROOT
NEVER = 10**6


def tkey(i):
    k = 'a' + str(i) * 63
    menv.ModelHasher.registry[('sha256', i)] = k
    return k


class TObj:
    def __init__(self, i, size, t_w, t_p, t_c, t_u, offset):
        self.i, self.size, self.t_w, self.t_p, self.t_c, self.t_u, self.offset = i, size, t_w, t_p, t_c, t_u, offset
        self.key = tkey(i)
        self.content = Seg([(('obj', i, size), 0, size)])


class TWorld:
    def __init__(self, objs):
        self.objs = objs
        self.step = 0
        self.open_handles = 0
        self.max_open = 0

    def tick(self, what):
        self.step += 1

    def loose(self, path):
        for o in self.objs:
            if path == VROOT + '/loose/' + o.key[:2] + '/' + o.key[2:]:
                return o
        return None

    def loose_exists(self, o):
        return o.t_w <= self.step and self.step < o.t_u


class RHandle:
    mode = 'rb'

    def __init__(self, w, name, data):
        self.w, self.name, self.data, self.pos, self.closed = w, name, data, 0, False
        w.open_handles += 1
        w.max_open = max(w.max_open, w.open_handles)

    def fileno(self):
        return self

    def close(self):
        if not self.closed:
            self.closed = True
            self.w.open_handles -= 1

    def __enter__(self):
        return self

    def __exit__(self, *a):
        self.close()

    def tell(self):
        return self.pos

    def seek(self, t, whence=0):
        if whence == 1:
            t = self.pos + t
        elif whence == 2:
            t = len(self.data) + t
        if t < 0:
            raise OSError(22, 'Invalid argument')
        self.pos = t
        return t

    def read(self, n=-1):
        size = len(self.data)
        if n is None or n < 0:
            n = max(0, size - self.pos)
        n = min(n, max(0, size - self.pos))
        r = self.data[self.pos : self.pos + n]
        self.pos = self.pos + n
        return r


def t_install(w):
    C, U = fresh_modules()

    def topen(path, mode='r', **kw):
        path = str(path)
        assert mode == 'rb', mode
        w.tick(('open', path))
        o = w.loose(path)
        if o is not None:
            if not w.loose_exists(o):
                raise FileNotFoundError(path)
            return RHandle(w, path, o.content)
        if path == VROOT + '/packs/0':
            data = EMPTY
            for o in sorted(w.objs, key=lambda o: o.offset):  # offsets are in a concrete order
                if o.t_p <= w.step:
                    data = data + Seg([(('gap', o.i), 0, o.offset - len(data))]) + o.content
            return RHandle(w, path, data)
        raise FileNotFoundError(path)

    class TOS:
        name = 'posix'

        def fstat(self, h):
            return StatResult(len(h.data), False)

    class TSession:
        bind = Engine()

        def __init__(self):
            self.snap = None

        def execute(self, stmt, params=None):
            w.tick(('sql',))
            if self.snap is None:
                self.snap = w.step
            rows = []
            for o in w.objs:
                if o.t_c <= self.snap:
                    rows.append(
                        dict(id=o.i + 1, hashkey=o.key, pack_id=0, offset=o.offset, length=o.size, size=o.size, compressed=False)
                    )
            rows = [r for r in rows if menv._match(r, stmt.conds)]
            return Result(tuple(r[c.name] for c in stmt.cols) for r in rows)

        def close(self):
            self.snap = None

    class TPath(pathlib.PurePosixPath):
        def stat(self):
            w.tick(('stat', str(self)))
            o = w.loose(str(self))
            if o is None or not w.loose_exists(o):
                raise FileNotFoundError(str(self))
            return StatResult(o.size, False)

        def exists(self):
            try:
                self.stat()
                return True
            except FileNotFoundError:
                return False

        def resolve(self):
            return self

    for M in (C, U):
        M.os = TOS()
        M.open = topen
    C.select, C.text, C.func, C.Obj = select, text, Func, MObj
    C.get_session = lambda path, create=False: TSession()
    C.Engine = Engine
    C.Path = TPath
    c = C.Container(VROOT)
    c._config = {
        'container_version': 1,
        'loose_prefix_len': 2,
        'pack_size_target': 10**9,
        'hash_type': 'sha256',
        'container_id': 'x',
        'compression_algorithm': 'zlib+1',
    }
    return c
