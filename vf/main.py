"""./check <Cxx> [--tier quick|thorough] [--replay file]

Runs the cells registered for a property (vf/registry.py), each in its own process (vf/chrun.py), replays every solver
counterexample against the REAL environment before reporting it, writes evidence/<id>.json.

exit 0: no violation on anything explored (known findings are printed as KNOWN-FINDING lines)
exit 1: VIOLATION property=<id> replay=<path>   (solver counterexample that reproduces on the real environment)
exit 2: harness error (a cell that could not be run at all, a reachability twin that came back CONFIRMED)
A model counterexample that does not reproduce on the real environment is reported as INCONCLUSIVE (status UNCONFIRMED,
listed in the evidence), never as a violation and never as a non-zero exit.
"""
import concurrent.futures
import hashlib
import json
import os
import subprocess
import sys
import time

ROOT = os.path.dirname(os.path.dirname(os.path.abspath(__file__)))
PY = os.path.join(ROOT, '.venv', 'bin', 'python')


def chrun(args, timeout):
    repo = os.environ.get('VF_REPO')  # scratch copy of /repo for hand-run mutants; default: /repo via the venv .pth
    env = dict(os.environ, PYTHONPATH=ROOT + (os.pathsep + repo if repo else ''), PYTHONHASHSEED='0')
    try:
        p = subprocess.run([PY, '-m', 'vf.chrun'] + args, cwd=ROOT, env=env, capture_output=True, text=True, timeout=timeout)
    except subprocess.TimeoutExpired:
        return dict(status='UNKNOWN', error='process timeout', paths=0, solver_checks=0, solver_s=0.0, wall_s=timeout)
    lines = [l for l in p.stdout.strip().splitlines() if l.startswith('{')]
    if not lines:
        return dict(status='ERROR', error=(p.stderr or p.stdout)[-2000:], paths=0, solver_checks=0, solver_s=0.0, wall_s=0)
    return json.loads(lines[-1])


def concrete(cell, kwargs, mode):
    return chrun(['run', cell['module'], cell['function'], json.dumps(kwargs), mode], 600)


def replay_real(cell, cex):
    """Replay a counterexample on the real environment; sweep the dimensions whose numbering differs there."""
    sweep = cell.get('replay_sweep') or {}
    runs = [dict(cex)]
    for name, values in sweep.items():
        if name in cex:
            runs = [dict(r, **{name: v}) for r in runs for v in values]
    if sweep:
        runs = [dict(cex)] + [r for r in runs if r != cex]  # the solver's own values first
    for kw in runs:
        r = concrete(cell, kw, cell.get('replay_mode', 'real'))
        if r.get('result') is False:
            return kw, r
    return None, None


def tree_digest():
    """Digest of everything a cell verdict depends on: /repo's package sources and /verif's harness + framework."""
    h = hashlib.sha256()
    repo = os.environ.get('VF_REPO', '/repo')
    for base in (os.path.join(repo, 'disk_objectstore'), os.path.join(ROOT, 'harness'), os.path.join(ROOT, 'vf')):
        for root, dirs, files in sorted(os.walk(base)):
            dirs[:] = sorted(d for d in dirs if d != '__pycache__')
            for f in sorted(files):
                if f.endswith('.py'):
                    h.update(os.path.join(root, f).encode())
                    h.update(open(os.path.join(root, f), 'rb').read())
    return h.hexdigest()[:20]


def run_cell(cell, tier, seed, digest=None):
    """Several properties share cells; a verdict is reused only for the byte-identical source tree (both /repo package
    and /verif machinery), same tier and seed, and only for VF_CACHE_S seconds.  Any edit of /repo recomputes."""
    cache = os.path.join(ROOT, '.cache', '%s-%s-%s-%d.json' % (digest, cell['name'], tier, seed))
    ttl = float(os.environ.get('VF_CACHE_S', '5400'))
    if digest and ttl > 0 and os.path.exists(cache) and time.time() - os.path.getmtime(cache) < ttl:
        out = json.load(open(cache))
        out['reused_from_same_tree_run'] = True
        return out
    out = _run_cell(cell, tier, seed)
    if digest and out.get('status') in ('CONFIRMED', 'REFUTED', 'UNKNOWN'):
        os.makedirs(os.path.dirname(cache), exist_ok=True)
        json.dump(out, open(cache, 'w'))
    return out


def _run_cell(cell, tier, seed):
    t0 = time.time()
    timeout = cell['timeout'][0 if tier == 'quick' else 1]
    out = dict(cell=cell['name'], module=cell['module'], function=cell['function'], expect=cell.get('expect', 'CONFIRMED'))
    # 1. differential validation of the model environment on the cell's sample inputs (model and real must both accept)
    out['validated'] = 0
    for kw in cell.get('samples', []):
        want = cell.get('sample_result', True)
        rmode = cell.get('replay_mode', 'real')
        rm = concrete(cell, kw, 'model')
        rr = concrete(cell, kw, rmode)
        if rm.get('result') is want and rr.get('result') is want:
            out['validated'] += 1
            continue
        # A sample input that fails is a concrete counterexample candidate, not a harness error: the real world decides.
        if rr.get('result') is False:
            hit, res = dict(kw), rr
        elif rm.get('result') is False:
            hit, res = replay_real(cell, kw)  # step indices are numbered differently in the two worlds: sweep
        else:
            hit, res = None, None
        if hit is not None:
            out.update(status='REFUTED', cex=dict(kw), cex_message='sample input fails: %r' % (kw,), replay='reproduced',
                       replay_input=hit, replay_result=res, paths=1, solver_checks=0, solver_s=0.0, timeout_s=timeout)
            out['wall_s'] = round(time.time() - t0, 2)
            return out
        out['status'] = 'ERROR'
        out['error'] = 'sample %r: model world gave %r, %s world gave %r' % (kw, rm, rmode, rr)
        return out
    # 2. the solver run
    r = chrun(['sym', cell['module'], cell['function'], str(timeout), str(seed)], timeout + 120)
    out.update({k: r.get(k) for k in ('status', 'paths', 'solver_checks', 'solver_s', 'cex', 'cex_message', 'error', 'messages')})
    out['timeout_s'] = timeout
    # 3. replay
    if r.get('status') == 'REFUTED' and out['expect'] == 'CONFIRMED':
        if r.get('cex') is None:
            out['replay'] = 'unparsable counterexample'
        else:
            kw, rr = replay_real(cell, r['cex'])
            out['replay'] = 'reproduced' if kw else 'not reproduced'
            out['replay_input'] = kw
            out['replay_result'] = rr
    out['wall_s'] = round(time.time() - t0, 2)
    return out


def main(argv):
    from vf import registry

    pid = argv[1]
    tier = os.environ.get('VERIF_TIER', 'quick')
    if '--tier' in argv:
        tier = argv[argv.index('--tier') + 1]
    seed = int(os.environ.get('VERIF_SEED', '0') or 0)
    check = registry.CHECKS[pid]
    if '--replay' in argv:
        rp = json.load(open(argv[argv.index('--replay') + 1]))
        cell = [c for c in check['cells'] if c['name'] == rp['cell']][0]
        r = concrete(cell, rp['input'], cell.get('replay_mode', 'real'))
        print(json.dumps(r))
        if r.get('result') is False:
            print('VIOLATION property=%s replay=%s' % (pid, argv[argv.index('--replay') + 1]))
            return 1
        return 0
    t0 = time.time()
    cells = [c for c in check['cells'] if tier == 'thorough' or not c.get('thorough_only')]
    if os.environ.get('VF_CELLS'):  # development aid (tools/seedrun.py): restrict to the named cells
        names = os.environ['VF_CELLS'].split(',')
        cells = [c for c in cells if c['name'] in names or any(c['name'].startswith(n[:-1]) for n in names if n.endswith('*'))]
    outdir = os.environ.get('VF_OUT') or ROOT  # evidence/replays of runs against a scratch copy never land in /verif
    known = [k for k in json.load(open(os.path.join(ROOT, 'known_findings.json')))['findings'] if k['property'] == pid]
    jobs = int(os.environ.get('VF_JOBS', '0') or 0) or min(16, os.cpu_count() or 4)
    digest = tree_digest()
    with concurrent.futures.ThreadPoolExecutor(jobs) as ex:
        results = list(ex.map(lambda c: run_cell(c, tier, seed, digest), cells))
    violations, errors, known_hit = [], [], []
    discharged = 0
    unconfirmed = []
    for cell, r in zip(cells, results):
        st = r.get('status')
        if st == 'REFUTED' and r['expect'] == 'CONFIRMED' and r.get('replay') != 'reproduced':
            # A model counterexample that the real environment does not confirm is NOT a violation: either the model
            # environment is more permissive than reality for this code (a stub gap, an API it does not know) or the real
            # values it would need differ from the model's.  It is reported, not counted as discharged, and never raised
            # as an alarm.
            r['status'] = 'UNCONFIRMED'
            unconfirmed.append(r)
            print('INCONCLUSIVE cell=%s status=UNCONFIRMED (model counterexample not reproduced on the real environment: %s)'
                  % (r['cell'], (r.get('cex_message') or '')[:200]))
        elif st == 'ERROR' and r.get('error', '').startswith('sample '):
            # a sample input on which only the MODEL world fails: same reasoning
            r['status'] = 'UNCONFIRMED'
            unconfirmed.append(r)
            print('INCONCLUSIVE cell=%s status=UNCONFIRMED (%s)' % (r['cell'], r['error'][:300]))
        elif st == 'ERROR':
            errors.append(r)
        elif st == 'REFUTED' and r['expect'] == 'CONFIRMED':
            kf = None
            for k in known:
                if k['cell'] == cell['name'] and eval(k['predicate'], {}, dict(r['replay_input'])):
                    kf = k
            if kf:
                known_hit.append((kf, r))
            else:
                violations.append(r)
        elif st == 'CONFIRMED' and r['expect'] == 'CONFIRMED':
            discharged += 1
        elif st == 'REFUTED' and r['expect'] == 'REFUTED':
            discharged += 1
        elif r['expect'] == 'REFUTED' and st == 'CONFIRMED':
            r['status'] = 'ERROR'
            r['error'] = 'reachability twin was CONFIRMED: the harness never reaches the code it claims to cover'
            errors.append(r)
        else:
            print('INCONCLUSIVE cell=%s status=%s paths=%s (not exhausted within %ss; nothing found on the paths explored)'
                  % (r['cell'], st, r.get('paths'), r.get('timeout_s')))
    os.makedirs(os.path.join(outdir, 'replays'), exist_ok=True)
    os.makedirs(os.path.join(outdir, 'evidence'), exist_ok=True)
    rc = 0
    for kf, r in known_hit:
        print('KNOWN-FINDING: property=%s %s [%s] input=%s' % (pid, kf['what'], kf['id'], json.dumps(r['replay_input'])))
    for r in violations:
        body = json.dumps(dict(property=pid, cell=r['cell'], input=r['replay_input'], result=r['replay_result'],
                               solver_message=r.get('cex_message')), indent=1)
        path = os.path.join(outdir, 'replays', '%s-%s.json' % (pid, hashlib.sha1(body.encode()).hexdigest()[:10]))
        open(path, 'w').write(body)
        print('VIOLATION property=%s replay=%s' % (pid, path))
        print('  cell=%s input=%s %s' % (r['cell'], r['replay_input'], r['replay_result']))
        rc = 1
    for r in errors:
        print('HARNESS-ERROR cell=%s status=%s replay=%s error=%s cex=%s'
              % (r['cell'], r.get('status'), r.get('replay'), r.get('error'), r.get('cex_message')), file=sys.stderr)
        if rc == 0:
            rc = 2
    paths = sum(r.get('paths') or 0 for r in results)
    queries = sum(r.get('solver_checks') or 0 for r in results)
    ev = dict(
        property_id=pid,
        tier=tier,
        seed=seed,
        level='model_checking',
        coverage=dict(
            states=max(paths, 1),
            transitions=max(queries, 1),
            traces_validated_against_impl=sum(r.get('validated', 0) for r in results),
            samples=[dict(cell=r['cell'], function=r['module'] + '.' + r['function'], status=r.get('status'),
                          expect=r['expect'], paths=r.get('paths'), z3_queries=r.get('solver_checks'),
                          solver_s=r.get('solver_s'), per_condition_timeout_s=r.get('timeout_s'),
                          bounds=c.get('bounds'), sample_inputs=c.get('samples'), counterexample=r.get('cex'),
                          replay=r.get('replay'), reused_from_same_tree_run=r.get('reused_from_same_tree_run', False))
                     for c, r in zip(cells, results)],
            obligations=len(cells),
            discharged=discharged,
            cells_not_exhausted=[r['cell'] for r in results if r.get('status') == 'UNKNOWN'],
            unconfirmed_model_counterexamples=[dict(cell=r['cell'], message=(r.get('cex_message') or r.get('error') or '')[:300]) for r in unconfirmed],
            solver_s=round(sum(r.get('solver_s') or 0 for r in results), 2),
            functions_encoded=check['functions'],
            explanation='states = execution paths of the real functions explored symbolically by CrossHair; transitions = '
            'z3 check() calls discharged; a cell is discharged when CrossHair exhausted every path within the bounds with '
            'no counterexample (CONFIRMED) or, for a reachability twin, when it was REFUTED as required; '
            'traces_validated_against_impl = harness sample inputs executed concretely on BOTH the model and the real '
            'environment (real file system / SQLite / hashlib) with the same verdict',
            known_findings=[k['id'] for k, _ in known_hit],
            source_tree_digest=digest,
        ),
        assumptions=check['assumptions'] + registry.COMMON_ASSUMPTIONS,
        wall_s=round(time.time() - t0, 2),
        violations=len(violations),
    )
    json.dump(ev, open(os.path.join(outdir, 'evidence', pid + '.json'), 'w'), indent=1)
    print('%s tier=%s cells=%d discharged=%d paths=%d z3_queries=%d violations=%d known=%d wall=%.0fs'
          % (pid, tier, len(cells), discharged, paths, queries, len(violations), len(known_hit), time.time() - t0))
    return rc


if __name__ == '__main__':
    sys.exit(main(sys.argv))
