"""Two interchangeable worlds behind one small interface.

* ``ModelWorld``: the real ``Container`` code runs on the model environment (abstract bytes, ModelFS, ModelDB, model
  hasher) -- this is what CrossHair executes symbolically.
* ``RealWorld``: the same harness body runs on a temporary directory with the real file system, real SQLite, real
  hashlib/zlib -- this is the *replay* of a solver counterexample.

A harness only talks to ``w`` (``content/key/put_loose/set_pack/rows/pack_data/loose_data/stream/...``) and to the real
``Container`` object ``w.c``; which world it gets is decided by ``vf.world.MODE``.
"""
import hashlib
import io
import os
import random
import shutil
import sqlite3
import sys
import tempfile

MODE = 'model'  # or 'real'


class Crash(BaseException):
    """Raised by the environment at the crash point (BaseException: the code under test must not swallow it)."""


def make_world(target, prefix_len=2, hash_type='sha256', parent=None, name='c', config_file=False, page=None):
    """config_file: write a real config.json into the model container (only with a CONCRETE configuration: serialising a
    symbolic pack target would make CrossHair enumerate its values)"""
    if MODE == 'model':
        return ModelWorld(target, prefix_len, hash_type, parent, name, config_file, page)
    return RealWorld(target, prefix_len, hash_type, parent, name, page)


_ORIG = {}
_MODS = {}


def fresh_modules():
    """disk_objectstore as imported from /repo's working tree by this process, with pristine module globals."""
    import disk_objectstore.backup_utils as B
    import disk_objectstore.container as C
    import disk_objectstore.utils as U

    assert os.path.realpath(C.__file__).startswith(os.environ.get('VF_REPO', '/repo') + '/'), C.__file__
    _MODS['B'] = B
    if not _ORIG:
        for M in (C, U, B):
            _ORIG[M] = dict(M.__dict__)
    else:
        for M in (C, U, B):
            for k in [k for k in M.__dict__ if k not in _ORIG[M]]:
                del M.__dict__[k]
            M.__dict__.update(_ORIG[M])
    return C, U


def paged(C, page):
    """Source parametrisation (DESIGN 3.9): the two function-local literals ``yield_per_size = 1000`` of container.py become
    the value ``page`` -- after checking that the name is used nowhere except as the argument of ``.limit(...)``, so that the
    rewritten module is the same program for page == 1000.  The transformed source is executed into the SAME module object
    (fresh_modules() restores the original afterwards).  If the pattern is not found exactly, nothing is rewritten."""
    import ast

    src = open(C.__file__).read()
    tree = ast.parse(src)
    assigns, loads, limits = [], 0, 0
    for node in ast.walk(tree):
        if isinstance(node, ast.Assign) and len(node.targets) == 1 and isinstance(node.targets[0], ast.Name) \
                and node.targets[0].id == 'yield_per_size' and isinstance(node.value, ast.Constant) and node.value.value == 1000:
            assigns.append(node)
        if isinstance(node, ast.Name) and node.id == 'yield_per_size' and isinstance(node.ctx, ast.Load):
            loads += 1
        if isinstance(node, ast.Call) and isinstance(node.func, ast.Attribute) and node.func.attr == 'limit' \
                and len(node.args) == 1 and isinstance(node.args[0], ast.Name) and node.args[0].id == 'yield_per_size':
            limits += 1
    if len(assigns) != 2 or loads != 2 or limits != 2:
        return False
    for node in assigns:
        node.value = ast.copy_location(ast.Name('_VF_PAGE', ast.Load()), node.value)
    code = compile(tree, C.__file__, 'exec')
    try:
        from crosshair.tracers import NoTracing, is_tracing

        tracing = is_tracing()
    except Exception:
        tracing = False
    if tracing:  # class bodies cannot be executed under CrossHair's tracer
        with NoTracing():
            exec(code, C.__dict__)
    else:
        exec(code, C.__dict__)
    C.__dict__['_VF_PAGE'] = page  # set afterwards: the value may be symbolic
    return True


# ====================================================================== model world
class ModelImage:
    """A photographed (kernel-visible or durable) state of the model container."""

    def __init__(self, files, rows, prefix_len, root=None):
        from . import menv

        self.files, self._rows, self.prefix_len = files, rows, prefix_len
        self.root = root or menv.VROOT

    def rows(self):
        return self._rows

    def pack_data(self, pack_id):
        return self.files.get(self.root + '/packs/' + str(pack_id))

    def pack_ids(self):
        pre = self.root + '/packs/'
        return sorted(int(p[len(pre) :]) for p in self.files if p.startswith(pre) and not p.endswith('.lock'))

    def loose_path(self, key):
        if self.prefix_len:
            return self.root + '/loose/' + key[: self.prefix_len] + '/' + key[self.prefix_len :]
        return self.root + '/loose/' + key

    def loose_data(self, key):
        return self.files.get(self.loose_path(key))

    def loose_keys(self):
        pre = self.root + '/loose/'
        return sorted(p[len(pre) :].replace('/', '') for p in self.files if p.startswith(pre))


class ModelWorld:
    kind = 'model'

    def __init__(self, target, prefix_len, hash_type, parent=None, name='c', config_file=False, page=None):
        from . import menv

        self.menv = menv
        self.prefix_len = prefix_len
        self.hash_type = hash_type
        self.klen = 64 if hash_type == 'sha256' else 40
        self.root = '/vroot/' + name
        if parent is None:
            self.C, self.U = fresh_modules()
            self.B = _MODS['B']
            if page is not None:
                paged(self.C, page)
            fs = self.fs = menv.ModelFS()
            self.dbs = {}
            menv.install(fs, self.dbs, self.C, self.U)
            self.C.Path = menv.make_path_class(fs)
        else:  # a second container in the same model environment (import source)
            self.C, self.U, fs, self.dbs = parent.C, parent.U, parent.fs, parent.dbs
            self.B = parent.B
            self.fs = fs
        fs.dirs.add(self.root)
        for d in ('loose', 'packs', 'duplicates', 'sandbox'):
            fs.dirs.add(self.root + '/' + d)
        db = self.db = menv.ModelDB(fs, self.root + '/packs.idx')
        self.dbs[self.root + '/packs.idx'] = db
        fs.files[self.root + '/packs.idx'] = menv.Node()
        self.bclock, self.fclock, self.bevents, self.fevents, self._firing = 0, 0, [], [], False
        self.config = {
            'container_version': 1,
            'loose_prefix_len': prefix_len,
            'pack_size_target': target,
            'hash_type': hash_type,
            'container_id': 'x' + name,
            'compression_algorithm': 'zlib+1',
        }
        # a real config file when the configuration is concrete (a copy of the container -- a backup -- can be opened)
        import json

        fs.files[self.root + '/config.json'] = menv.Node(text=json.dumps(self.config) if config_file else '{}')
        self.c = self.new_handle()
        self.box = []

    def new_handle(self, root=None):
        c = self.C.Container(root or self.root)
        if root is None:
            c._config = self.config
        return c

    # ---- backup environment (vf/mshell.py) and its clock
    def install_backup(self):
        from . import mshell

        mshell.install_backup(self)

    def set_wal_live(self, flag):
        """another client keeps a connection to the index open for the whole time (the -wal never goes away)"""
        if flag:
            self._wal_engine = self.menv.Engine(self.fs, self.db.path, self.db)
            self._wal_engine.connect()

    def db_file_rows(self, src, node):
        """rows carried by a copy of the file ``src`` (None for ordinary files)"""
        if src in self.dbs:
            return [dict(r) for r in self.dbs[src].main_rows()]
        if src.endswith('-wal') and src[:-4] in self.dbs:
            db = self.dbs[src[:-4]]
            if db.ckpt == len(db.versions) - 1:
                return None  # nothing committed since the last checkpoint: an empty WAL changes nothing
            return [dict(r) for r in db.versions[-1]]
        return node.dbrows

    def bat(self, t, fn, file_level=False):
        (self.fevents if file_level else self.bevents).append([t, fn, False])

    def _fire(self, events, clock):
        if self._firing:
            return
        self._firing = True
        try:
            for ev in events:
                if not ev[2] and ev[0] <= clock:
                    ev[2] = True
                    ev[1]()
        finally:
            self._firing = False

    def bobserve(self):
        if not self._firing:
            self.bclock += 1
            self._fire(self.bevents, self.bclock)

    def fobserve(self):
        if not self._firing:
            self.fclock += 1
            self._fire(self.fevents, self.fclock)

    def backup_image(self, path):
        """the backup folder read as a container, library-free (index rows as SQLite would open them)"""
        path = str(path)
        files = {}
        for p, n in self.fs.files.items():
            if p.startswith(path + '/'):
                files[p] = n.data
        idx = self.fs.files.get(path + '/packs.idx')
        wal = self.fs.files.get(path + '/packs.idx-wal')
        rows = []
        if idx is not None and idx.dbrows is not None:
            rows = wal.dbrows if (wal is not None and wal.dbrows is not None) else idx.dbrows
        return ModelImage(files, [dict(r) for r in rows], self.prefix_len, path)

    def mount_image(self, img):
        """a new container folder holding exactly the photographed state; returns a fresh handle on it"""
        self._mounts = getattr(self, '_mounts', 0) + 1
        root = '/vroot/img%d' % self._mounts
        fs = self.fs
        fs.dirs.add(root)
        for d in ('loose', 'packs', 'duplicates', 'sandbox'):
            fs.dirs.add(root + '/' + d)
        for p, data in img.files.items():
            q = root + p[len(img.root) :]
            node = self.menv.Node()
            node.data = data
            node.synced = len(data)
            fs.files[q] = node
            fs.dirs.add(q.rsplit('/', 1)[0])
        db = self.menv.ModelDB(fs, root + '/packs.idx')
        db.versions = [[dict(r) for r in img.rows()]]
        db.next_id = 1 + max([r['id'] for r in img.rows()] + [0])
        self.dbs[root + '/packs.idx'] = db
        fs.files[root + '/packs.idx'] = self.menv.Node()
        fs.files[root + '/config.json'] = self.menv.Node(text='{}')
        c = self.C.Container(root)
        c._config = self.config
        return c

    def image_of(self, handle):
        """library-free image of the container a handle (from mount_image) stands on"""
        root = str(handle.get_folder())
        files = {}
        for p, n in self.fs.files.items():
            if p.startswith(root + '/'):
                files[p] = n.data
        return ModelImage(files, [dict(r) for r in self.dbs[root + '/packs.idx'].versions[-1]], self.prefix_len, root)

    def fresh_folder(self):
        return '/vroot/new'

    second = 0  # the wall-clock second (only the backup dumps carry it)

    def first_backup(self, same_second):
        pass

    def next_backup(self, same_second):
        """a further backup follows: in the same wall-clock second as the previous one, or later"""
        if not same_second:
            self.second += 1

    def backup_dest(self):
        self.fs.dirs.add('/vbk')
        return '/vbk/dest'

    def backup_folders(self, dest):
        pre = dest + '/'
        return sorted(d for d in self.fs.dirs if d.startswith(pre + 'backup_') and '/' not in d[len(pre) :])

    # ---- contents
    def key(self, i, size):
        reg = self.menv.ModelHasher.registry
        for ht, klen in (('sha256', 64), ('sha1', 40)):  # the same content has a key under each algorithm
            reg[(ht, 'empty')] = 'e' * klen
            reg[(ht, i)] = ('a' + str(i) * 63)[:klen]
        if size == 0:
            return 'e' * self.klen
        return ('a' + str(i) * 63)[: self.klen]

    def content(self, i, size):
        self.key(i, size)
        return self.menv.Seg([(('obj', i, size), 0, size)])

    def junk(self, j, n):
        return self.menv.Seg([(('junk', j), 0, n)])

    def stream(self, i, size, cut=0):
        if cut:
            return self.menv.ShortStream(self.content(i, size), cut)
        return self.menv.MemStream(self.content(i, size))

    # ---- codec parameters (model zlib, vf/menv.py)
    def set_zlen(self, i, size, z):
        """the compressed stream of object i is z bytes long (symbolic, independent of size)"""
        self.key(i, size)
        self.fs.zl.zlen[i] = z

    def set_codec(self, early=0, sample_len=20):
        self.fs.zl.early, self.fs.zl.sample_len = early, sample_len

    def zdata(self, i, size):
        if size == 0:
            return self.menv.Seg([(('z', 'empty'), 0, self.menv.ZEMPTY)])
        src = ('obj', i, size)
        return self.menv.Seg([(('z', src), 0, self.fs.zl.zlen[i])])

    def inflates_to(self, data, i, size):
        """library-free: the stored bytes are exactly the compressed stream of object i"""
        return data == self.zdata(i, size)

    # ---- building pre-states directly
    def put_loose(self, i, size):
        key = self.key(i, size)
        path = ModelImage.loose_path(self, key)
        self.fs.dirs.add(path.rsplit('/', 1)[0])
        n = self.menv.Node()
        n.data = self.content(i, size)
        n.synced = size
        self.fs.files[path] = n
        return key

    def set_next_id(self, n):
        """the next index row gets primary key n (ids are sparse after deletions)"""
        self.db.next_id = n

    def damage_loose(self, key, size):
        self.fs.files[ModelImage.loose_path(self, key)].data = self.junk(9, size)

    def put_duplicate(self, i, size, good, tag):
        """a stray file duplicates/<key>.<tag> (what a Windows writer leaves behind): the object's bytes or junk"""
        n = self.menv.Node()
        n.data = self.content(i, size) if good else self.junk(7, size)
        n.synced = size
        self.fs.files[self.root + '/duplicates/' + self.key(i, size) + '.' + tag] = n

    def duplicates(self):
        pre = self.root + '/duplicates/'
        return sorted(p[len(pre) :] for p in self.fs.files if p.startswith(pre))

    def update_row(self, key, field, delta):
        for r in self.db.versions[-1]:
            if r['hashkey'] == key:
                r[field] = r[field] + delta

    def set_row(self, key, field, value):
        for r in self.db.versions[-1]:
            if r['hashkey'] == key:
                r[field] = value

    def truncate_pack(self, pack_id, t):
        n = self.fs.files[self.root + '/packs/' + str(pack_id)]
        n.data = n.data[:t]

    def damage_pack(self, pack_id, a, n):
        node = self.fs.files[self.root + '/packs/' + str(pack_id)]
        node.data = node.data[:a] + self.junk(8, n) + node.data[a + n :]

    def set_pack(self, pack_id, parts):
        """parts: list of ('junk', j, n) | ('obj', i, size); rows are inserted for the objects."""
        data = self.menv.EMPTY
        for p in parts:
            if p[0] == 'junk':
                data = data + self.junk(p[1], p[2])
            else:
                kind, i, size = p
                stored = self.zdata(i, size) if kind == 'zobj' else self.content(i, size)
                self.db.versions[-1].append(
                    dict(
                        id=self.db.next_id,
                        hashkey=self.key(i, size),
                        pack_id=pack_id,
                        offset=len(data),
                        length=len(stored),
                        size=size,
                        compressed=(kind == 'zobj'),
                    )
                )
                self.db.next_id += 1
                data = data + stored
        n = self.menv.Node()
        n.data = data
        n.synced = len(data)
        self.fs.files[self.root + '/packs/' + str(pack_id)] = n

    # ---- observation of the live state (library-free)
    def image(self, durable=False):
        files = {}
        for p, n in self.fs.files.items():
            if p.startswith(self.root + '/'):
                files[p] = n.data[: n.synced] if durable else n.data
        return ModelImage(files, [dict(r) for r in self.db.versions[-1]], self.prefix_len, self.root)

    def open_fds(self, count_index=False):
        return len(self.fs.open_fds) if count_index else self.fs.count_files()

    def max_open(self):
        return self.fs.max_open

    def reset_max_open(self):
        self.fs.max_open = self.fs.count_files()

    # ---- scheduled effects of OTHER actors (timeline events on the observation clock of the actor under test)
    def at(self, t, kind, *args):
        """kind: 'unlink_loose' (key) -- the packer/cleaner removes a loose file (if present);
        'put_loose' (i, size) -- another writer (re)creates a complete loose object (atomic rename)"""
        if kind == 'unlink_loose':
            path = ModelImage.loose_path(self, args[0])

            def fn():
                self.fs.files.pop(path, None)

        elif kind == 'call':  # a whole operation of another actor (real code through another handle)
            fn = args[0]
        else:
            i, size = args

            def fn():
                self.put_loose(i, size)

        self.fs.events.append([t, fn, False])

    def clock(self):
        return self.fs.clock

    # ---- crash injection
    def install_crash(self, crash_at, durable):
        fs, orig = self.fs, self.fs.tick

        def tick(what):
            orig(what)
            if fs.step == crash_at:
                self.box.append(self.image(durable))
                raise Crash()

        fs.tick = tick

    def install_commit_monitor(self, durable=True):
        """(durable=False: the same orderings against the KERNEL-VISIBLE bytes -- the packer's guarantee to concurrent
        readers, C04.)  C06 monitor: at every index commit, every row that is new or whose location changed designates bytes inside
        the synced prefix of its pack; a loose file is renamed under its key only when all its bytes are synced; a loose file is unlinked only when a committed row on durable bytes replaces it;
        a pack file is removed or renamed away only when no committed row references it."""
        self.monitor_ok = True
        db, fs = self.db, self.fs
        seen = {}
        for r in db.versions[-1]:
            seen[r['hashkey']] = (r['pack_id'], r['offset'], r['length'])
        orig = fs.tick
        root = self.root

        def tick(what):
            if what[0] == 'commit' and what[1] is not None:
                for r in what[1]:
                    loc = (r['pack_id'], r['offset'], r['length'])
                    if seen.get(r['hashkey']) != loc:
                        node = fs.files.get(root + '/packs/' + str(r['pack_id']))
                        if node is None or (node.synced if durable else len(node.data)) < r['offset'] + r['length']:
                            self.monitor_ok = False
                        seen[r['hashkey']] = loc
            if what[0] == 'unlink' and what[1].startswith(root + '/loose/'):
                key = what[1].split('/loose/')[1].replace('/', '')
                ok = False
                for r in db.versions[-1]:
                    if r['hashkey'] == key:
                        node = fs.files.get(root + '/packs/' + str(r['pack_id']))
                        if node is not None and (node.synced if durable else len(node.data)) >= r['offset'] + r['length']:
                            ok = True
                if not ok:
                    self.monitor_ok = False
            if what[0] == 'rename' and what[2].startswith(root + '/loose/'):
                # a loose object is published (atomic rename under its key) only with all its bytes on stable storage
                node = fs.files.get(what[1])
                if node is None or (durable and node.synced != len(node.data)):
                    self.monitor_ok = False
            if what[0] in ('unlink', 'rename') and what[1].startswith(root + '/packs/') and not what[1].endswith('.lock'):
                gone = what[1][len(root + '/packs/') :]
                for r in db.versions[-1]:
                    if str(r['pack_id']) == gone:
                        self.monitor_ok = False
            orig(what)

        fs.tick = tick

    def finish_monitor(self):
        pass

    def install_fault(self, fault_at):
        self.fs.fault_at = fault_at

    def install_perm_fault(self, at):
        """the at-th opening of a file for reading fails with PermissionError (EACCES); -1 switches it off"""
        self.fs.perm_at = at
        if at < 0:
            self.fs.ropens = 10**9

    def remove_locks(self):
        for p in [p for p in self.fs.files if p.endswith('.lock')]:
            del self.fs.files[p]
        for p in [p for p in self.fs.files if '/sandbox/' in p]:
            del self.fs.files[p]

    def cleanup(self):
        pass


# ====================================================================== real world
_COMPRESSIBLE = set()  # object ids whose real content is highly compressible (set through RealWorld.set_zlen)


def real_bytes(i, size):
    if not size:
        return b''
    if i in _COMPRESSIBLE:
        # distinct objects differ from the first byte on; the rest is a run of zeros (compresses to a dozen bytes)
        return bytes([65 + i % 26]) + bytes(size - 1)
    return random.Random(1000 + i).randbytes(size)


class RealImage:
    def __init__(self, folder, prefix_len):
        self.folder, self.prefix_len = folder, prefix_len

    def rows(self):
        con = sqlite3.connect(os.path.join(self.folder, 'packs.idx'))
        try:
            cur = con.execute('SELECT id, hashkey, pack_id, offset, length, size, compressed FROM db_object ORDER BY id')
            return [
                dict(id=r[0], hashkey=r[1], pack_id=r[2], offset=r[3], length=r[4], size=r[5], compressed=bool(r[6]))
                for r in cur.fetchall()
            ]
        finally:
            con.close()

    def pack_data(self, pack_id):
        p = os.path.join(self.folder, 'packs', str(pack_id))
        if not os.path.isfile(p):
            return None
        with io.open(p, 'rb') as f:
            return f.read()

    def pack_ids(self):
        return sorted(int(p) for p in os.listdir(os.path.join(self.folder, 'packs')) if p.lstrip('-').isdigit())

    def loose_path(self, key):
        if self.prefix_len:
            return os.path.join(self.folder, 'loose', key[: self.prefix_len], key[self.prefix_len :])
        return os.path.join(self.folder, 'loose', key)

    def loose_data(self, key):
        p = self.loose_path(key)
        if not os.path.isfile(p):
            return None
        with io.open(p, 'rb') as f:
            return f.read()

    def loose_keys(self):
        out = []
        base = os.path.join(self.folder, 'loose')
        for root, _, files in os.walk(base):
            for f in files:
                out.append(os.path.relpath(os.path.join(root, f), base).replace('/', ''))
        return sorted(out)


class _ShortRaw(io.BytesIO):
    """a stream whose first read returns at most ``cut`` bytes (the io.RawIOBase short-read contract)"""

    def __init__(self, data, cut):
        io.BytesIO.__init__(self, data)
        self._cut = cut

    def read(self, n=-1):
        if self._cut > 0 and (n is None or n < 0 or n > self._cut):
            n = self._cut
        self._cut = 0
        return io.BytesIO.read(self, n)


class _TickFile:
    """Proxy around a real binary write handle that reports I/O-relevant calls to the world's tick() and keeps the
    user-space buffer itself (unbounded, like the model's): bytes reach the real file only at flush/close/seek/
    truncate, so that a crash image or a failed flush loses exactly what the model says is lost."""

    def __init__(self, world, f):
        object.__setattr__(self, '_w', world)
        object.__setattr__(self, '_f', f)
        object.__setattr__(self, '_buf', [])

    def __getattr__(self, name):
        return getattr(self._f, name)

    def __enter__(self):
        return self

    def __exit__(self, *a):
        self.close()

    def __iter__(self):
        return iter(self._f)

    def _pending(self):
        n = 0
        for d in self._buf:
            n += len(d)
        return n

    def write(self, data):
        self._w.tick(('write', self._f.name))
        self._buf.append(bytes(data))
        return len(data)

    def _drain(self):
        data = b''.join(self._buf)
        del self._buf[:]
        self._f.write(data)
        self._f.flush()

    def flush(self):
        if self._buf:
            self._w.tick(('flush', self._f.name))  # a fault here leaves the data in the buffer, as CPython does
            self._drain()

    def tell(self):
        return self._f.tell() + self._pending()

    def seek(self, *a):
        self.flush()
        return self._f.seek(*a)

    def truncate(self, *a):
        self.flush()
        self._w.tick(('truncate', self._f.name))
        return self._f.truncate(*a)

    def close(self):
        if not self._f.closed and self._buf:
            try:
                self._w.tick(('flush', self._f.name))
            except BaseException:
                # CPython: a failing flush inside close() still closes the descriptor; the buffered bytes are lost
                del self._buf[:]
                self._f.close()
                raise
            self._drain()
        return self._f.close()


class _TickOS:
    def __init__(self, world):
        self._w = world

    def __getattr__(self, name):
        return getattr(os, name)

    def _wrap(name):  # noqa
        def f(self, *a, **kw):
            self._w.tick((name,) + tuple(str(x) for x in a))
            return getattr(os, name)(*a, **kw)

        return f

    rename = _wrap('rename')
    replace = _wrap('replace')
    remove = _wrap('remove')
    unlink = _wrap('unlink')
    link = _wrap('link')
    mkdir = _wrap('mkdir')

    def fsync(self, fd):
        self._w.tick(('fsync', fd))
        os.fsync(fd)
        st = os.fstat(fd)
        self._w.synced[st.st_ino] = st.st_size


class RealWorld(RealImage):
    kind = 'real'

    def __init__(self, target, prefix_len, hash_type, parent=None, name='c', page=None):
        if parent is None:
            self.C, self.U = fresh_modules()
            self.B = _MODS['B']
            if page is not None:
                paged(self.C, page)
        else:
            self.C, self.U, self.B = parent.C, parent.U, parent.B
        self.bclock, self.fclock, self.bevents, self.fevents, self._firing = 0, 0, [], [], False
        self._wal_handle = None
        base = os.environ.get('VF_SCRATCH') or tempfile.gettempdir()
        self.base = tempfile.mkdtemp(prefix='vf-replay-', dir=base)
        folder = os.path.join(self.base, name)
        RealImage.__init__(self, folder, prefix_len)
        self.hash_type = hash_type
        c = self.C.Container(folder)
        c.init_container(clear=True, pack_size_target=target, loose_prefix_len=prefix_len, hash_type=hash_type)
        c.close()
        self.c = self.new_handle()
        self.box = []
        self.step = 0
        self.crash_at = -1
        self.fault_at = -1
        self.durable = False
        self.synced = {}
        self.ticking = False
        self.monitor_ok = True
        self._monitor = False

    def new_handle(self, root=None):
        return self.C.Container(root or self.folder)

    # ---- backup: the real rsync / sqlite3; only the clock is instrumented (same numbering as the model shell)
    def install_backup(self):
        import sqlite3 as _sqlite3
        import subprocess as _subprocess

        w = self
        live = os.path.join(self.folder, 'packs.idx')

        class Sub:
            def __getattr__(self, name):
                return getattr(_subprocess, name)

            @staticmethod
            def run(*a, **kw):
                w.bobserve()
                return _subprocess.run(*a, **kw)

        class Sql:
            def __getattr__(self, name):
                return getattr(_sqlite3, name)

            @staticmethod
            def connect(path, *a, **kw):
                if str(path) == live:
                    w.bobserve()
                return _sqlite3.connect(path, *a, **kw)

        self.B.subprocess = Sub()
        self.B.sqlite3 = Sql()

    def set_wal_live(self, flag):
        if flag and self._wal_handle is None:
            self._wal_handle = self.new_handle()
            self._wal_handle.has_objects(['0' * 64])  # a query: the connection (and with it the -wal) stays open

    def bat(self, t, fn, file_level=False):
        if not file_level:  # events inside a transfer cannot be forced on the real rsync
            self.bevents.append([t, fn, False])

    def bobserve(self):
        if self._firing:
            return
        self.bclock += 1
        self._firing = True
        try:
            for ev in self.bevents:
                if not ev[2] and ev[0] <= self.bclock:
                    ev[2] = True
                    ev[1]()
        finally:
            self._firing = False

    def fobserve(self):
        pass

    def backup_image(self, path):
        return RealImage(str(path), self.prefix_len)

    def mount_image(self, img):
        return self.C.Container(img.folder)

    def image_of(self, handle):
        return RealImage(str(handle.get_folder()), self.prefix_len)

    def fresh_folder(self):
        return os.path.join(self.base, 'new')

    def first_backup(self, same_second):
        """when the next backup is to fall into the same second: start right after a second boundary"""
        import time

        if same_second:
            now = time.time()
            time.sleep(1.0 - (now - int(now)) + 0.02)

    def next_backup(self, same_second):
        import time

        if not same_second:
            now = time.time()
            time.sleep(1.0 - (now - int(now)) + 0.05)

    def backup_dest(self):
        return os.path.join(self.base, 'dest')

    def backup_folders(self, dest):
        return sorted(os.path.join(dest, d) for d in os.listdir(dest) if d.startswith('backup_'))

    def key(self, i, size):
        return hashlib.new(self.hash_type, real_bytes(i, size)).hexdigest()

    def content(self, i, size):
        return real_bytes(i, size)

    def junk(self, j, n):
        return bytes([0xA0 + (j % 16)]) * n

    def stream(self, i, size, cut=0):
        if cut:
            return _ShortRaw(real_bytes(i, size), cut)
        return io.BytesIO(real_bytes(i, size))

    # ---- codec parameters: the real compressed length is whatever zlib gives; the model's choice only selects
    # compressible (z well below the size) or incompressible real content
    def set_zlen(self, i, size, z):
        if z * 10 < size * 9:
            _COMPRESSIBLE.add(i)
        else:
            _COMPRESSIBLE.discard(i)

    def set_codec(self, early=0, sample_len=20):
        pass

    def zdata(self, i, size):
        import zlib

        return zlib.compress(real_bytes(i, size), 1)

    def inflates_to(self, data, i, size):
        import zlib

        try:
            return zlib.decompress(data) == real_bytes(i, size)
        except zlib.error:
            return False

    def put_loose(self, i, size):
        key = self.key(i, size)
        p = self.loose_path(key)
        os.makedirs(os.path.dirname(p), exist_ok=True)
        with io.open(p, 'wb') as f:
            f.write(real_bytes(i, size))
        self.synced[os.stat(p).st_ino] = size
        return key

    def set_next_id(self, n):
        """rows created by set_pack get the primary keys n, n+1, ... (sparse ids, as after deletions)"""
        self._next_id = n

    def damage_loose(self, key, size):
        with io.open(self.loose_path(key), 'wb') as f:
            f.write(self.junk(9, size))

    def put_duplicate(self, i, size, good, tag):
        with io.open(os.path.join(self.folder, 'duplicates', self.key(i, size) + '.' + tag), 'wb') as f:
            f.write(real_bytes(i, size) if good else self.junk(7, size))

    def duplicates(self):
        return sorted(os.listdir(os.path.join(self.folder, 'duplicates')))

    def update_row(self, key, field, delta):
        con = sqlite3.connect(os.path.join(self.folder, 'packs.idx'))
        con.execute('UPDATE db_object SET "%s" = "%s" + ? WHERE hashkey = ?' % (field, field), (delta, key))
        con.commit()
        con.close()

    def set_row(self, key, field, value):
        con = sqlite3.connect(os.path.join(self.folder, 'packs.idx'))
        con.execute('UPDATE db_object SET "%s" = ? WHERE hashkey = ?' % field, (value, key))
        con.commit()
        con.close()

    def truncate_pack(self, pack_id, t):
        with io.open(os.path.join(self.folder, 'packs', str(pack_id)), 'r+b') as f:
            f.truncate(t)

    def damage_pack(self, pack_id, a, n):
        with io.open(os.path.join(self.folder, 'packs', str(pack_id)), 'r+b') as f:
            f.seek(a)
            old = f.read(n)
            f.seek(a)
            f.write(bytes(b ^ 0x5A for b in old))

    def set_pack(self, pack_id, parts):
        data = b''
        rows = []
        for p in parts:
            if p[0] == 'junk':
                data += self.junk(p[1], p[2])
            else:
                kind, i, size = p
                stored = self.zdata(i, size) if kind == 'zobj' else real_bytes(i, size)
                rows.append((self.key(i, size), pack_id, len(data), len(stored), size, 1 if kind == 'zobj' else 0))
                data += stored
        p = os.path.join(self.folder, 'packs', str(pack_id))
        with io.open(p, 'wb') as f:
            f.write(data)
        self.synced[os.stat(p).st_ino] = len(data)
        con = sqlite3.connect(os.path.join(self.folder, 'packs.idx'))
        if getattr(self, '_next_id', None) is not None:
            rows = [(self._next_id + n,) + r for n, r in enumerate(rows)]
            self._next_id += len(rows)
            con.executemany(
                'INSERT INTO db_object (id, hashkey, pack_id, offset, length, size, compressed) VALUES (?,?,?,?,?,?,?)', rows
            )
        else:
            con.executemany(
                'INSERT INTO db_object (hashkey, pack_id, offset, length, size, compressed) VALUES (?,?,?,?,?,?)', rows
            )
        con.commit()
        con.close()

    def image(self, durable=False):
        dst = tempfile.mkdtemp(prefix='img-', dir=self.base)
        img = os.path.join(dst, 'c')
        shutil.copytree(self.folder, img)
        if durable:
            for sub in ('packs', 'loose', 'sandbox'):
                for root, _, files in os.walk(os.path.join(self.folder, sub)):
                    for f in files:
                        src = os.path.join(root, f)
                        ino = os.stat(src).st_ino
                        cp = os.path.join(img, os.path.relpath(src, self.folder))
                        keep = self.synced.get(ino, 0)
                        if os.path.getsize(cp) > keep:
                            with io.open(cp, 'r+b') as h:
                                h.truncate(keep)
        return RealImage(img, self.prefix_len)

    def open_fds(self, count_index=False):
        n = 0
        for f in os.listdir('/proc/self/fd'):
            try:
                t = os.readlink('/proc/self/fd/' + f)
            except OSError:
                continue
            if t.startswith(self.folder) and (count_index or 'packs.idx' not in t):
                n += 1
        return n

    def max_open(self):
        return 0  # not observable from outside on the real file system; decided on the model only

    def reset_max_open(self):
        pass

    # ---- instrumentation (module globals of the freshly imported modules; /repo is not edited)
    def tick(self, what):
        self.step += 1
        if self._monitor:
            self._monitor_tick(what)
        if self.step == self.crash_at:
            self.box.append(self.image(self.durable))
            raise Crash()
        if self.step == self.fault_at:
            raise OSError(5, 'injected I/O error')

    def _instrument(self):
        if self.ticking:
            return
        self.ticking = True
        w = self
        tos = _TickOS(self)

        def topen(path, mode='r', *a, **kw):
            if mode == 'rb' and getattr(w, '_perm_at', -1) > 0 and os.path.isfile(path):
                w._ropens += 1
                if w._ropens == w._perm_at:
                    raise PermissionError(13, 'Permission denied', str(path))
            f = io.open(path, mode, *a, **kw)
            if 'b' in mode and ('w' in mode or 'a' in mode or 'x' in mode or '+' in mode):
                return _TickFile(w, f)
            return f

        for M in (self.C, self.U):
            M.os = tos
            M.open = topen
        orig_get_session = self.C.get_session

        def get_session(path, create=False, **kw):
            s = orig_get_session(path, create=create, **kw)
            orig_commit = s.commit

            def commit():
                w.tick(('commit',))
                return orig_commit()

            s.commit = commit
            return s

        self.C.get_session = get_session

    # ---- scheduled effects of other actors: the same events, applied on the real file system when the real code
    # makes its t-th path-level call (open / os.* / Path.exists|stat|is_file) -- a deterministic schedule replay
    def at(self, t, kind, *args):
        self._instrument_clock()
        if kind == 'unlink_loose':
            path = self.loose_path(args[0])

            def fn():
                try:
                    os.remove(path)
                except FileNotFoundError:
                    pass

        elif kind == 'call':
            fn = args[0]
        else:
            i, size = args

            def fn():
                self.put_loose(i, size)

        self._events.append([t, fn, False])

    def clock(self):
        return self._clock

    def observe(self):
        if getattr(self, '_ofiring', False):
            return
        self._clock += 1
        self._ofiring = True
        try:
            for ev in self._events:
                if not ev[2] and ev[0] <= self._clock:
                    ev[2] = True
                    ev[1]()
        finally:
            self._ofiring = False

    def _instrument_clock(self):
        if getattr(self, '_events', None) is not None:
            return
        import pathlib

        self._events, self._clock = [], 0
        w = self
        self.c.close()

        class OPath(pathlib.PosixPath):
            def exists(self, *a, **kw):
                w.observe()
                return pathlib.PosixPath.exists(self, *a, **kw)

            def is_file(self, *a, **kw):
                w.observe()
                return pathlib.PosixPath.is_file(self, *a, **kw)

            def stat(self, *a, **kw):
                w.observe()
                return pathlib.PosixPath.stat(self, *a, **kw)

        class OOS:
            def __getattr__(self, name):
                v = getattr(os, name)
                if name in ('listdir', 'remove', 'unlink', 'rename', 'replace', 'link', 'mkdir', 'makedirs', 'stat'):

                    def f(*a, **kw):
                        w.observe()
                        return v(*a, **kw)

                    return f
                return v

        def oopen(path, mode='r', *a, **kw):
            w.observe()
            return io.open(path, mode, *a, **kw)

        for M in (self.C, self.U):
            M.os = OOS()
            M.open = oopen
            M.Path = OPath
        self.c = self.new_handle()

    def install_crash(self, crash_at, durable):
        self.c.close()
        self._instrument()
        self.c = self.new_handle()
        self.crash_at, self.durable = crash_at, durable

    def install_fault(self, fault_at):
        if fault_at > 0:
            self.c.close()
            self._instrument()
            self.c = self.new_handle()
        self.fault_at = fault_at
        if fault_at < 0:
            self.step = 10**9

    def install_perm_fault(self, at):
        if at > 0:
            self.c.close()
            self._instrument()
            self.c = self.new_handle()
            self._ropens = 0
        self._perm_at = at

    def remove_locks(self):
        for f in os.listdir(os.path.join(self.folder, 'packs')):
            if f.endswith('.lock'):
                os.remove(os.path.join(self.folder, 'packs', f))

    def install_commit_monitor(self, durable=True):
        self.c.close()
        self._instrument()
        self.c = self.new_handle()
        self._monitor = True
        self._monitor_durable = durable
        self._seen = {r['hashkey']: (r['pack_id'], r['offset'], r['length']) for r in self.rows()}

    def _monitor_tick(self, what):
        if what[0] == 'commit':
            # rows about to be committed are not visible from another connection; check after the fact instead:
            # remember the durable lengths *now*, compare with the rows visible after the commit (see post_commit_check)
            self._pending = {pid: self._synced_len(pid) for pid in self.pack_ids()}
            self._check_after = True
        elif getattr(self, '_check_after', False):
            self._post_commit_check()
        if what[0] in ('remove', 'unlink') and '/loose/' in what[1] and what[1].startswith(self.folder):
            key = what[1].split('/loose/')[1].replace('/', '')
            ok = False
            for r in self.rows():
                if r['hashkey'] == key and self._synced_len(r['pack_id']) >= r['offset'] + r['length']:
                    ok = True
            if not ok:
                self.monitor_ok = False
        if what[0] in ('rename', 'replace') and what[2].startswith(os.path.join(self.folder, 'loose') + os.sep):
            st = os.stat(what[1])
            if getattr(self, '_monitor_durable', True) and self.synced.get(st.st_ino, 0) != st.st_size:
                self.monitor_ok = False
        if what[0] in ('remove', 'unlink', 'rename', 'replace') and what[1].startswith(os.path.join(self.folder, 'packs') + os.sep):
            gone = os.path.basename(what[1])
            if not gone.endswith('.lock'):
                for r in self.rows():
                    if str(r['pack_id']) == gone:
                        self.monitor_ok = False

    def _synced_len(self, pack_id):
        p = os.path.join(self.folder, 'packs', str(pack_id))
        if not os.path.isfile(p):
            return -1
        if not getattr(self, '_monitor_durable', True):
            return os.stat(p).st_size  # kernel-visible bytes
        return self.synced.get(os.stat(p).st_ino, 0)

    def _post_commit_check(self):
        self._check_after = False
        for r in self.rows():
            loc = (r['pack_id'], r['offset'], r['length'])
            if self._seen.get(r['hashkey']) != loc:
                self._seen[r['hashkey']] = loc
                if self._pending.get(r['pack_id'], -1) < r['offset'] + r['length']:
                    self.monitor_ok = False

    def finish_monitor(self):
        if getattr(self, '_check_after', False):
            self._post_commit_check()

    def cleanup(self):
        for c in (self.c, self._wal_handle):
            try:
                if c is not None:
                    c.close()
            except Exception:
                pass
        shutil.rmtree(self.base, ignore_errors=True)
