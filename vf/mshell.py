"""Model environment of disk_objectstore.backup_utils: a shell (subprocess.run) that understands exactly the commands
the backup code issues -- `[ -e p ]`, mkdir, find ... backup_*_*, mv, ln -sfn, rm -rf, rsync --version and the rsync
transfers (options -azh --no-whole-file --info/--progress/-vv, --exclude NAME, --link-dest=DIR, trailing-slash
semantics, no --delete) -- on the model file system; sqlite3.connect(...).backup (a consistent copy of the latest
committed index version, WAL included); tempfile.TemporaryDirectory.

Index files are model files carrying a row snapshot (``Node.dbrows``).  A live index in WAL mode with another connection
open consists of ``packs.idx`` (the rows as of the last checkpoint), ``packs.idx-wal`` (everything committed since) and
``packs.idx-shm``; a raw copy of ``packs.idx`` next to a raw copy of ``packs.idx-wal`` opens as the WAL's version (SQLite
replays a valid WAL it finds next to a database file) -- reproduced against real SQLite by the RealWorld replay.

Every ``subprocess.run`` call and every connection to the live index advances the backup clock (``world.bobserve()``):
the effects of concurrent clients are scheduled on that clock, in both worlds with the same numbering.
"""
from . import menv


class Result:
    def __init__(self, rc=0, out=''):
        self.returncode, self.stdout, self.stderr = rc, out, ''


def _children(fs, root):
    """all files and directories below root, as paths relative to root"""
    pre = root + '/'
    files = sorted(p[len(pre) :] for p in fs.files if p.startswith(pre))
    dirs = sorted(p[len(pre) :] for p in fs.dirs if p.startswith(pre))
    return files, dirs


def _pat_match(rel, pat):
    """one rsync filter pattern against a path relative to the transfer root (directories: callers pass every ancestor)"""
    import fnmatch

    pat = pat.rstrip('/')
    if pat.startswith('/'):  # anchored at the transfer root
        return fnmatch.fnmatchcase(rel, pat[1:])
    if '/' in pat:  # matched against the tail of the path
        parts, want = rel.split('/'), pat.split('/')
        return len(parts) >= len(want) and fnmatch.fnmatchcase('/'.join(parts[-len(want):]), pat)
    return fnmatch.fnmatchcase(rel.split('/')[-1], pat)


def _excluded(rel, rules):
    """rsync filter rules [('+'|'-', pattern)], first match wins, checked for every ancestor directory first (an excluded
    directory is not entered); no matching rule = included"""
    parts = rel.split('/')
    for n in range(1, len(parts) + 1):
        sub = '/'.join(parts[:n])
        for kind, pat in rules:
            if _pat_match(sub, pat):
                if kind == '-':
                    return True
                break
    return False


class ModelShell:
    def __init__(self, world):
        self.w, self.fs = world, world.fs
        self.symlinks = {}
        self.rsync_calls = []

    # -- subprocess.run
    def run(self, args, capture_output=False, text=False, check=False):
        self.w.bobserve()
        args = [str(a) for a in args]
        cmd = args[0]
        fs = self.fs
        if cmd == '[':
            assert args[1] == '-e' and args[3] == ']', args
            return Result(0 if (args[2] in fs.dirs or args[2] in fs.files) else 1)
        if cmd == 'mkdir':
            parent = args[1].rsplit('/', 1)[0]
            if args[1] in fs.dirs or parent not in fs.dirs:
                return Result(1)
            fs.dirs.add(args[1])
            return Result(0)
        if cmd == 'find':
            assert args[2:] == ['-maxdepth', '1', '-type', 'd', '-name', 'backup_*_*', '-print'], args
            pre = args[1] + '/'
            out = []
            for d in sorted(fs.dirs):
                if d.startswith(pre) and '/' not in d[len(pre) :]:
                    name = d[len(pre) :]
                    if name.startswith('backup_') and name.count('_') >= 2:
                        out.append(d)
            return Result(0, ''.join(d + '\n' for d in out))
        if cmd == 'mv':
            src, dst = args[1], args[2]
            if src not in fs.dirs or dst in fs.dirs:
                return Result(1)
            for p in [p for p in fs.files if p.startswith(src + '/')]:
                fs.files[dst + p[len(src) :]] = fs.files.pop(p)
            for d in [d for d in fs.dirs if d == src or d.startswith(src + '/')]:
                fs.dirs.discard(d)
                fs.dirs.add(dst + d[len(src) :])
            return Result(0)
        if cmd == 'ln':
            assert args[1] == '-sfn', args
            self.symlinks[args[3]] = args[2]
            return Result(0)
        if cmd == 'rm':
            assert args[1] == '-rf', args
            menv.ModelShutil(fs).rmtree(args[2])
            return Result(0)
        if len(args) == 2 and args[1] == '--version':
            return Result(0, 'rsync  version 3.2.7  protocol version 31\n')
        if '-azh' in args:
            return Result(self.rsync(args[1:]))
        raise menv.DataDependence('unknown shell command %r' % (args,))

    # -- rsync
    def rsync(self, args):
        excludes, pos = [], []
        self.link_dest = None
        self.checksum = False
        it = iter(args)
        for a in it:
            if a == '--exclude':
                excludes.append(('-', next(it)))
            elif a.startswith('--exclude='):
                excludes.append(('-', a.split('=', 1)[1]))
            elif a == '--include':
                excludes.append(('+', next(it)))
            elif a.startswith('--include='):
                excludes.append(('+', a.split('=', 1)[1]))
            elif a.startswith('--link-dest='):
                self.link_dest = a.split('=', 1)[1].rstrip('/')
            elif a in ('--checksum', '-c'):
                self.checksum = True
            elif a.startswith('-'):
                assert a in ('-azh', '--no-whole-file', '--info=progress2,stats1', '--progress', '-vv') or a.startswith('--link-dest='), a
            else:
                pos.append(a)
        assert len(pos) == 2, args
        src, dest = pos
        self.rsync_calls.append((src, dest, tuple(excludes)))
        fs = self.fs
        contents = src.endswith('/')
        src = src.rstrip('/')
        dest_dir = dest.rstrip('/')
        if src in fs.files:
            if dest_dir not in fs.dirs:
                if dest.endswith('/'):
                    fs.dirs.add(dest_dir)
                else:  # a single file to a non-existing destination: the destination IS the file name
                    self.copy_file(src, dest_dir)
                    return 0
            self.copy_file(src, dest_dir + '/' + src.rsplit('/', 1)[1], src.rsplit('/', 1)[1])
            return 0
        if src not in fs.dirs:
            return 23
        if dest_dir not in fs.dirs:
            if dest_dir.rsplit('/', 1)[0] not in fs.dirs:
                return 11
            fs.dirs.add(dest_dir)
        base = dest_dir if contents else dest_dir + '/' + src.rsplit('/', 1)[1]
        fs.dirs.add(base)
        files, dirs = _children(fs, src)  # the file list is built first
        for d in dirs:
            if not _excluded(d, excludes):
                fs.dirs.add(base + '/' + d)
        rc = 0
        for f in files:
            if _excluded(f, excludes):
                continue
            self.w.fobserve()  # file-level instants (only used by the cells that schedule events inside a transfer)
            if src + '/' + f not in fs.files:
                rc = 24  # "file has vanished": rsync reports a partial transfer
                continue
            self.copy_file(src + '/' + f, base + '/' + f, f if contents else src.rsplit('/', 1)[1] + '/' + f)
        return rc

    def size_of(self, path, node):
        """what rsync's quick check sees as the file size (index files: whole pages)"""
        rows = self.w.db_file_rows(path, node)
        if rows is not None:
            return 4096 * (2 + len(rows) // 40)
        return len(node.data) if node.text is None else len(node.text)

    def copy_file(self, src, dst, rel=None):
        fs = self.fs
        node = fs.files[src]
        if self.link_dest is not None and rel is not None:
            # --link-dest: a file of the previous backup with the same size and modification time is hard-linked
            # instead of being transferred (rsync's quick check; -a preserves the times of what it copies)
            cand = fs.files.get(self.link_dest + '/' + rel)
            if cand is not None and self.size_of(self.link_dest + '/' + rel, cand) == self.size_of(src, node):
                if self.checksum:  # --checksum: the contents decide, not the modification time
                    same = cand.dbrows == self.w.db_file_rows(src, node) and cand.text == node.text and cand.data == node.data
                else:
                    same = cand.mtime == node.mtime
                if same:
                    fs.files[dst] = cand
                    return
        new = menv.Node(text=node.text)
        new.data = node.data
        new.synced = len(node.data)
        new.dbrows = self.w.db_file_rows(src, node)
        new.mtime = node.mtime
        fs.files[dst] = new


class ModelSqlite3:
    """sqlite3 inside backup_utils: only connect(...).backup(...) / with / close are used"""

    def __init__(self, world):
        self.w = world

    def connect(self, path):
        return _Conn(self.w, str(path))


class _Conn:
    def __init__(self, w, path):
        self.w, self.path = w, path
        if path in w.dbs:
            w.bobserve()  # a connection to the live index

    def backup(self, dst):
        rows = self.w.dbs[self.path].versions[-1]  # the online backup API sees every committed transaction
        node = menv.Node()
        node.dbrows = [dict(r) for r in rows]
        # the dump is a new file: its modification time is "now", which rsync's quick check compares to the SECOND
        node.mtime = ('second', self.w.second)
        self.w.fs.files[dst.path] = node

    def __enter__(self):
        return self

    def __exit__(self, *a):
        return False

    def close(self):
        pass


class ModelTempfile:
    def __init__(self, fs):
        self.fs, self.n = fs, 0

    def TemporaryDirectory(self):
        return _TempDir(self)


class _TempDir:
    def __init__(self, tf):
        tf.n += 1
        self.fs, self.name = tf.fs, '/vtmp/t%d' % tf.n

    def __enter__(self):
        self.fs.dirs.add('/vtmp')
        self.fs.dirs.add(self.name)
        return self.name

    def __exit__(self, *a):
        menv.ModelShutil(self.fs).rmtree(self.name)
        return False


class ModelShutilB:
    """``shutil`` inside backup_utils: which() and the metadata copies"""

    def __init__(self, fs):
        self.fs = fs

    @staticmethod
    def which(exe):
        return '/usr/bin/' + exe

    def copystat(self, src, dst, **kw):
        a, b = self.fs.files.get(str(src)), self.fs.files.get(str(dst))
        if a is None or b is None:
            raise FileNotFoundError(str(src))
        b.mtime = a.mtime

    def copymode(self, src, dst, **kw):
        pass

    def copy2(self, src, dst, **kw):
        node = self.fs.files[str(src)]
        new = menv.Node(text=node.text)
        new.data, new.synced, new.dbrows, new.mtime = node.data, len(node.data), node.dbrows, node.mtime
        self.fs.files[str(dst)] = new


class _Stamp:
    def __init__(self, n):
        self.n = n

    def strftime(self, fmt):
        return '%014d' % (20260101000000 + self.n)


class ModelDatetime:
    """deterministic clock for the backup folder name (CrossHair would make datetime.now() symbolic)"""

    class timezone:
        utc = None

    class datetime:
        count = 0

        @classmethod
        def now(cls, tz=None):
            cls.count += 1
            return _Stamp(cls.count)


class ModelRandom:
    @staticmethod
    def choices(population, k=1):
        return [population[0]] * k


def install_backup(world):
    """patch the module globals of disk_objectstore.backup_utils (no source edits)"""
    B = world.B
    world.shell = ModelShell(world)
    B.subprocess = world.shell
    B.sqlite3 = ModelSqlite3(world)
    B.tempfile = ModelTempfile(world.fs)
    B.shutil = ModelShutilB(world.fs)
    B.Path = world.C.Path
    B.datetime = ModelDatetime
    B.random = ModelRandom
    ModelDatetime.datetime.count = 0
