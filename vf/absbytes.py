"""Abstract bytes.

A ``Seg`` is a concatenation of extents ``(src, lo, hi)`` meaning bytes [lo, hi) of the abstract source ``src``.
``lo``/``hi`` may be symbolic integers.  Only the operations that the code under test legitimately performs on data
chunks are supported (len, truth value, comparison with b'' / another Seg, concatenation, slicing, join).  Everything
else raises ``DataDependence`` -- "the code never looks inside object bytes" is a *checked* side condition.
"""
import collections.abc


class DataDependence(Exception):
    """The code under test inspected abstract bytes in a way the abstraction does not support."""


class Src:
    """An abstract byte source (identity matters)."""

    __slots__ = ('kind', 'ident', 'size')

    def __init__(self, kind, ident, size=None):
        self.kind, self.ident, self.size = kind, ident, size

    def __repr__(self):
        return '%s%r' % (self.kind, self.ident)


class Seg:
    __slots__ = ('ext',)

    def __init__(self, ext=()):
        out = []
        for s, lo, hi in ext:
            if hi == lo:
                continue
            if out and out[-1][0] is s and out[-1][2] == lo:
                out[-1] = (s, out[-1][1], hi)
            else:
                out.append((s, lo, hi))
        self.ext = tuple(out)

    @staticmethod
    def of(src, lo, hi):
        return Seg(((src, lo, hi),))

    def __len__(self):
        n = 0
        for _, lo, hi in self.ext:
            n = n + (hi - lo)
        return n

    def __bool__(self):
        return len(self.ext) > 0

    def __eq__(self, other):
        if isinstance(other, (bytes, bytearray)):
            if len(other) == 0:
                return len(self.ext) == 0
            if len(self.ext) == 0:
                return False
            raise DataDependence('compare abstract bytes with concrete bytes')
        if isinstance(other, Seg):
            if len(self.ext) != len(other.ext):
                return False
            for a, b in zip(self.ext, other.ext):
                if a[0] is not b[0]:
                    return False
                if a[1] != b[1] or a[2] != b[2]:
                    return False
            return True
        return NotImplemented

    def __ne__(self, other):
        r = self.__eq__(other)
        return r if r is NotImplemented else not r

    __hash__ = None

    def __add__(self, other):
        if isinstance(other, (bytes, bytearray)):
            if len(other) == 0:
                return self
            raise DataDependence('concat with concrete bytes')
        if not isinstance(other, Seg):
            return NotImplemented
        return Seg(self.ext + other.ext)

    def __radd__(self, other):
        if isinstance(other, (bytes, bytearray)):
            if len(other) == 0:
                return self
            raise DataDependence('concat with concrete bytes')
        return NotImplemented

    def __getitem__(self, key):
        if not isinstance(key, slice) or key.step is not None:
            raise DataDependence('indexing abstract bytes')
        n = len(self)
        start = 0 if key.start is None else key.start
        stop = n if key.stop is None else key.stop
        if start < 0:
            start = max(0, n + start)
        if stop < 0:
            stop = max(0, n + stop)
        start = min(start, n)
        stop = min(stop, n)
        out = []
        base = 0
        for s, lo, hi in self.ext:
            ln = hi - lo
            a = max(start, base)
            b = min(stop, base + ln)
            if a < b:
                out.append((s, lo + (a - base), lo + (b - base)))
            base = base + ln
        return Seg(out)

    def __iter__(self):
        raise DataDependence('iterating abstract bytes')

    def __contains__(self, item):
        raise DataDependence('membership test on abstract bytes')

    def __repr__(self):
        return 'Seg(%r)' % (self.ext,)


collections.abc.Buffer.register(Seg)
EMPTY = Seg()


def as_seg(data):
    """Coerce a value handed to a stub into a Seg (concrete empty bytes are allowed)."""
    if isinstance(data, Seg):
        return data
    if isinstance(data, (bytes, bytearray)) and len(data) == 0:
        return EMPTY
    raise DataDependence('concrete bytes %r reached a model stub' % (data[:16],))


def join(parts):
    out = EMPTY
    for p in parts:
        out = out + as_seg(p)
    return out
