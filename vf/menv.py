"""Probe: model environment (abstract bytes, model FS, model DB) for running the real Container code."""
import collections.abc
import errno
import stat as statmod

VROOT = '/vroot/c'


class DataDependence(Exception):
    pass


# ------------------------------------------------------------------ abstract bytes
class Seg:
    """Abstract bytes: a concatenation of extents (src, lo, hi) -- bytes [lo,hi) of abstract source `src`."""

    __slots__ = ('ext',)

    def __init__(self, ext=()):
        out = []
        for s, lo, hi in ext:
            if hi == lo:
                continue
            if out and out[-1][0] == s and out[-1][2] == lo:
                out[-1] = (s, out[-1][1], hi)
            else:
                out.append((s, lo, hi))
        self.ext = tuple(out)

    def __len__(self):
        n = 0
        for _, lo, hi in self.ext:
            n = n + (hi - lo)
        return n

    def __bool__(self):
        return len(self.ext) > 0

    def __eq__(self, other):
        if isinstance(other, (bytes, bytearray)):
            if len(other) == 0:
                return len(self.ext) == 0
            if len(self.ext) == 0:
                return False
            raise DataDependence('compare abstract bytes with concrete bytes')
        if isinstance(other, Seg):
            if len(self.ext) != len(other.ext):
                return False
            for a, b in zip(self.ext, other.ext):
                if a[0] != b[0] or a[1] != b[1] or a[2] != b[2]:
                    return False
            return True
        return NotImplemented

    def __ne__(self, other):
        r = self.__eq__(other)
        return r if r is NotImplemented else not r

    __hash__ = None

    def __add__(self, other):
        if isinstance(other, (bytes, bytearray)):
            if len(other) == 0:
                return self
            raise DataDependence('concat with concrete bytes')
        return Seg(self.ext + other.ext)

    def __radd__(self, other):
        if isinstance(other, (bytes, bytearray)):
            if len(other) == 0:
                return self
            raise DataDependence('concat with concrete bytes')
        return NotImplemented

    def __getitem__(self, key):
        if not isinstance(key, slice) or key.step is not None:
            raise DataDependence('indexing abstract bytes')
        n = len(self)
        start = 0 if key.start is None else key.start
        stop = n if key.stop is None else key.stop
        if start < 0:
            start = max(0, n + start)
        if stop < 0:
            stop = max(0, n + stop)
        start = min(start, n)
        stop = min(stop, n)
        out = []
        base = 0
        for s, lo, hi in self.ext:
            ln = hi - lo
            a = max(start, base)
            b = min(stop, base + ln)
            if a < b:
                out.append((s, lo + (a - base), lo + (b - base)))
            base = base + ln
        return Seg(out)

    def __iter__(self):
        raise DataDependence('iterating abstract bytes')

    def __repr__(self):
        return 'Seg(%r)' % (self.ext,)


collections.abc.Buffer.register(Seg)
EMPTY = Seg()


# ------------------------------------------------------------------ model FS
class Node:
    clock = 0

    def touch(self):
        self.mtime = Node.clock = Node.clock + 1

    def __init__(self, text=None):
        self.data = EMPTY  # kernel-visible content
        self.synced = 0  # number of bytes durable
        self.nlink = 1
        self.text = text  # concrete str content of a text file (config.json); None for binary files
        self.dbrows = None  # an SQLite index file that is not live: its committed rows (copied dumps / raw copies)
        self.mtime = Node.clock = Node.clock + 1  # modification stamp (rsync's quick check compares size and mtime)


class TextWriter:
    """text-mode write handle: the concrete string lands in the node at close"""

    def __init__(self, fs, node):
        import io as _io

        self.fs, self.node, self.buf, self.closed = fs, node, _io.StringIO(), False

    def write(self, s):
        return self.buf.write(s)

    def close(self):
        if not self.closed:
            self.closed = True
            self.node.text = self.buf.getvalue()

    def __enter__(self):
        return self

    def __exit__(self, *a):
        self.close()


class ModelFS:
    def __init__(self):
        self.dirs = {VROOT}
        self.files = {}  # path -> Node
        self.trace = []
        self.step = 0
        self.crash_at = -1
        self.fault_at = -1
        self.open_fds = {}  # fd -> path (files, directories, fcntl duplicates)
        self.fd_counter = 0
        self.max_open = 0
        self.ropens = 0  # binary read-opens so far
        self.perm_at = -1  # the perm_at-th read-open raises PermissionError (a file locked by someone else)
        self.clock = 0  # counts every path-level file-system call of the actor under test (observations included)
        self.events = []  # [instant, action, fired]: effects of OTHER actors, applied when the clock reaches the instant

    def observe(self):
        if getattr(self, '_firing', False):
            return  # file-system calls made by an event itself (another actor's operation) are not observations
        self.clock += 1
        self._firing = True
        try:
            for ev in self.events:
                if not ev[2] and ev[0] <= self.clock:
                    ev[2] = True
                    ev[1]()
        finally:
            self._firing = False

    def tick(self, what):
        self.step += 1
        self.trace.append(what)
        if self.step == self.fault_at:
            raise OSError(errno.EIO, 'injected')

    def p(self, path):
        return str(path)

    def count_files(self):
        """open descriptors that are not index connections"""
        n = 0
        for q in self.open_fds.values():
            if not q.endswith('packs.idx'):
                n += 1
        return n


class Handle:
    """CPython buffered file over a model inode.

    ``pos`` is what ``tell()`` reports (minus the user-space buffer), ``kpos`` the kernel file offset.  For ``'ab'``
    (O_APPEND) every flushed write lands at the end of the file whatever ``kpos`` is, and ``truncate()`` without
    argument cuts at the kernel offset -- validated against the real OS in vf/envcheck.py.
    """

    def __init__(self, fs, path, mode, node):
        self.fs, self.name, self.mode, self.node = fs, path, mode, node
        self.closed = False
        self.pos = len(node.data) if 'a' in mode else 0
        self.kpos = self.pos
        self.buf = EMPTY  # user-space buffer (write)
        fs.fd_counter += 1
        self.fd = 1000 + fs.fd_counter
        fs.open_fds[self.fd] = path
        fs.max_open = max(fs.max_open, fs.count_files())

    def __enter__(self):
        return self

    def __exit__(self, *a):
        self.close()

    def fileno(self):
        return self.fd

    def tell(self):
        return self.pos + len(self.buf)

    def write(self, data):
        if not isinstance(data, Seg):
            if len(data) == 0:
                return 0
            raise DataDependence('writing concrete bytes')
        self.fs.tick(('write', self.name, len(data)))
        self.buf = self.buf + data
        return len(data)

    def flush(self):
        if len(self.buf):
            self.fs.tick(('flush', self.name))
            if 'a' in self.mode:
                self.node.data = self.node.data + self.buf
                self.kpos = len(self.node.data)
            else:
                self.node.data = self.node.data[: self.kpos] + self.buf + self.node.data[self.kpos + len(self.buf) :]
                self.kpos = self.kpos + len(self.buf)
            self.pos = self.pos + len(self.buf)
            self.buf = EMPTY
            self.node.touch()

    def close(self):
        if not self.closed:
            if 'r' not in self.mode:
                self.flush()
            self.closed = True
            self.fs.open_fds.pop(self.fd, None)

    def read(self, n=-1):
        size = len(self.node.data)
        if n is None or n < 0:
            n = max(0, size - self.pos)
        n = min(n, max(0, size - self.pos))
        r = self.node.data[self.pos : self.pos + n]
        self.pos = self.pos + n
        self.kpos = self.pos
        return r

    def seek(self, target, whence=0):
        self.flush() if 'r' not in self.mode else None
        if whence == 1:
            target = self.pos + target
        elif whence == 2:
            target = len(self.node.data) + target
        if target < 0:
            raise OSError(errno.EINVAL, 'Invalid argument')
        self.pos = target
        self.kpos = target
        return target

    def truncate(self, size=None):
        if 'r' not in self.mode:
            self.flush()
        if size is None:
            size = self.kpos
        self.fs.tick(('truncate', self.name, size))
        self.node.data = self.node.data[:size]
        if self.node.synced > size:
            self.node.synced = size
        self.node.touch()
        return size

    def seekable(self):
        return True


class _DirEntry:
    def __init__(self, fs, parent, name):
        self.fs, self.name, self.path = fs, name, parent + '/' + name

    def is_file(self, **kw):
        return self.path in self.fs.files

    def is_dir(self, **kw):
        return self.path in self.fs.dirs

    def stat(self, **kw):
        if self.path in self.fs.files:
            return StatResult(len(self.fs.files[self.path].data), False)
        return StatResult(0, True)


class StatResult:
    def __init__(self, size, isdir):
        self.st_size = size
        self.st_mode = (statmod.S_IFDIR if isdir else statmod.S_IFREG) | 0o644


class ModelOSPath:
    """``os.path`` over the model file system: the queries that touch the file system are answered by the model, the
    purely lexical functions are the real ones"""

    def __init__(self, fs):
        import os as _os

        self.fs, self._real = fs, _os.path

    def __getattr__(self, name):
        if name in ('join', 'basename', 'dirname', 'split', 'splitext', 'normpath', 'abspath', 'realpath', 'sep', 'relpath',
                    'commonpath', 'commonprefix', 'isabs', 'expanduser'):
            return getattr(self._real, name)
        raise AttributeError('os.path.%s is not modelled (vf/menv.py ModelOSPath)' % name)

    def exists(self, path):
        self.fs.observe()
        return str(path) in self.fs.files or str(path) in self.fs.dirs

    lexists = exists

    def isfile(self, path):
        self.fs.observe()
        return str(path) in self.fs.files

    def isdir(self, path):
        self.fs.observe()
        return str(path) in self.fs.dirs

    def getsize(self, path):
        self.fs.observe()
        if str(path) not in self.fs.files:
            raise FileNotFoundError(str(path))
        return len(self.fs.files[str(path)].data)


class ModelOS:
    """Replacement for the `os` module inside disk_objectstore.{container,utils}."""

    name = 'posix'
    O_DIRECTORY = 0o200000

    def __init__(self, fs):
        self.fs = fs
        import os as _os

        self.path = ModelOSPath(fs)
        self.fspath = _os.fspath
        self.sep = _os.sep
        self.devnull = _os.devnull

    def __getattr__(self, name):
        raise AttributeError('os.%s is not modelled (vf/menv.py ModelOS)' % name)

    def getpid(self):
        return 4242

    def rmdir(self, path):
        self.fs.observe()
        path = str(path)
        if path not in self.fs.dirs:
            raise FileNotFoundError(path)
        pre = path + '/'
        for q in list(self.fs.files) + list(self.fs.dirs):
            if q.startswith(pre):
                raise OSError(errno.ENOTEMPTY, 'Directory not empty', path)
        self.fs.tick(('rmdir', path))
        self.fs.dirs.discard(path)

    def truncate(self, path, length):
        self.fs.observe()
        node = self.fs.files[str(path)]
        self.fs.tick(('truncate', str(path), length))
        node.data = node.data[:length]
        if node.synced > length:
            node.synced = length
        node.touch()

    def scandir(self, path):
        return [_DirEntry(self.fs, str(path), name) for name in self.listdir(path)]

    def listdir(self, path):
        self.fs.observe()
        path = str(path)
        if path not in self.fs.dirs:
            raise FileNotFoundError(path)
        pre = path + '/'
        out = []
        for q in list(self.fs.files) + list(self.fs.dirs):
            if q.startswith(pre) and '/' not in q[len(pre) :]:
                out.append(q[len(pre) :])
        return out

    def remove(self, path):
        self.fs.observe()
        path = str(path)
        if path not in self.fs.files:
            raise FileNotFoundError(path)
        self.fs.tick(('unlink', path))
        self.fs.files.pop(path).nlink -= 1

    unlink = remove

    def rename(self, src, dst):
        self.fs.observe()
        src, dst = str(src), str(dst)
        if src not in self.fs.files:
            raise FileNotFoundError(src)
        self.fs.tick(('rename', src, dst))
        self.fs.files[dst] = self.fs.files.pop(src)

    replace = rename

    def link(self, src, dst):
        self.fs.observe()
        src, dst = str(src), str(dst)
        if dst in self.fs.files:
            raise FileExistsError(dst)
        self.fs.tick(('link', src, dst))
        self.fs.files[dst] = self.fs.files[src]
        self.fs.files[dst].nlink += 1

    def mkdir(self, path):
        self.fs.observe()
        path = str(path)
        if path in self.fs.dirs:
            raise FileExistsError(path)
        self.fs.tick(('mkdir', path))
        self.fs.dirs.add(path)

    def makedirs(self, path, exist_ok=False):
        path = str(path)
        if path in self.fs.dirs:
            if exist_ok:
                return
            raise FileExistsError(path)
        self.fs.tick(('mkdir', path))
        parts = path.split('/')
        for n in range(2, len(parts) + 1):
            self.fs.dirs.add('/'.join(parts[:n]))

    def fstat(self, fd):
        return self._fdmap[fd]

    def open(self, path, flags):
        self.fs.tick(('opendir', str(path)))
        self.fs.fd_counter += 1
        fd = 5000 + self.fs.fd_counter
        self.fs.open_fds[fd] = str(path)
        return fd

    def fsync(self, fd):
        self.fs.tick(('fsync', fd))
        h = self.fs.fdtable.get(fd)
        if h is not None:
            h.node.synced = len(h.node.data)

    def close(self, fd):
        self.fs.open_fds.pop(fd, None)

    def stat(self, path):
        self.fs.observe()
        path = str(path)
        if path in self.fs.files:
            return StatResult(len(self.fs.files[path].data), False)
        if path in self.fs.dirs:
            return StatResult(0, True)
        raise FileNotFoundError(path)


def make_open(fs):
    fs.fdtable = {}

    def model_open(path, mode='r', **kw):
        fs.observe()
        path = str(path)
        if 'b' not in mode and 'x' not in mode and 'a' not in mode:
            import io as _io

            if 'w' in mode:
                fs.tick(('create', path))
                fs.files[path] = Node(text='')
                return TextWriter(fs, fs.files[path])
            if path not in fs.files:
                raise FileNotFoundError(path)
            if fs.files[path].text is None:
                raise DataDependence('text-mode read of a binary model file')
            return _io.StringIO(fs.files[path].text)
        if 'x' in mode:
            if path in fs.files:
                raise FileExistsError(path)
            fs.tick(('create', path))
            fs.files[path] = Node()
        elif 'w' in mode:
            fs.tick(('create', path))
            fs.files[path] = Node()
        elif 'a' in mode:
            if path not in fs.files:
                fs.tick(('create', path))
                fs.files[path] = Node()
        else:
            if path not in fs.files:
                raise FileNotFoundError(path)
            fs.ropens += 1
            if fs.ropens == fs.perm_at:
                raise PermissionError(errno.EACCES, 'Permission denied', path)
        h = Handle(fs, path, mode if 'b' in mode else mode + 't', fs.files[path])
        fs.fdtable[h.fd] = h
        return h

    return model_open


# ------------------------------------------------------------------ model DB
class Col:
    def __init__(self, name):
        self.name = name

    def in_(self, vals):
        return ('in', self.name, list(vals))

    def __eq__(self, o):
        return ('eq', self.name, o)

    def __ne__(self, o):
        return ('ne', self.name, o)

    def __gt__(self, o):
        return ('gt', self.name, o)

    def __ge__(self, o):
        return ('ge', self.name, o)

    def __lt__(self, o):
        return ('lt', self.name, o)

    def __le__(self, o):
        return ('le', self.name, o)

    def notin_(self, vals):
        return ('notin', self.name, list(vals))

    def not_in(self, vals):
        return ('notin', self.name, list(vals))

    def between(self, a, b):
        return ('between', self.name, (a, b))

    def desc(self):
        return ('desc', self.name)

    def asc(self):
        return self

    __hash__ = object.__hash__


class Insert:
    def __init__(self):
        self.or_ignore = False

    def prefix_with(self, s):
        assert s == 'OR IGNORE'
        self.or_ignore = True
        return self


class Table:
    def insert(self):
        return Insert()


class MObj:
    id = Col('id')
    hashkey = Col('hashkey')
    compressed = Col('compressed')
    size = Col('size')
    offset = Col('offset')
    length = Col('length')
    pack_id = Col('pack_id')
    __table__ = Table()


class Agg:
    def __init__(self, kind, col=None):
        self.kind, self.col = kind, col

    def label(self, _):
        return self


class Func:
    @staticmethod
    def count():
        return Agg('count')

    @staticmethod
    def sum(col):
        return Agg('sum', col)

    @staticmethod
    def coalesce(agg, default):
        return agg

    @staticmethod
    def max(col):
        return Agg('max', col)

    @staticmethod
    def min(col):
        return Agg('min', col)


class Select:
    def __init__(self, cols):
        self.cols = cols
        self.conds = []
        self.order = None
        self.descending = False
        self.lim = None
        self.dist = False

    def where(self, *cs):
        for c in cs:
            self.conds.append(c)
        return self

    filter = where

    def order_by(self, col):
        if isinstance(col, tuple) and col[0] == 'desc':
            self.order, self.descending = col[1], True
        else:
            self.order = col.name
        return self

    def limit(self, n):
        self.lim = n
        return self

    def select_from(self, _):
        return self

    def distinct(self):
        self.dist = True
        return self

    def execution_options(self, **kw):
        return self


def select(*cols):
    return Select(cols)


class Delete(Select):
    pass


def delete(_):
    return Delete(())


class Update(Select):
    def values(self, **kw):
        self.vals = kw
        return self


def update(_):
    return Update(())


class Text:
    def __init__(self, s):
        self.s = s


def text(s):
    return Text(s)


_INT_COLS = ('id', 'pack_id', 'offset', 'length', 'size')


def _affinity(name, val):
    """SQLite INTEGER column affinity: a numeric string compared with an integer column is converted."""
    if name in _INT_COLS and isinstance(val, str):
        return int(val)
    return val


def and_(*conds):
    return ('and', None, list(conds))


def or_(*conds):
    return ('or', None, list(conds))


def _match(row, conds):
    for cond in conds:
        if cond is True:
            continue
        op, name, val = cond
        if op == 'and':
            if not _match(row, val):
                return False
            continue
        if op == 'or':
            if not any(_match(row, [c]) for c in val):
                return False
            continue
        if op in ('in', 'notin'):
            val = [_affinity(name, v) for v in val]
        elif op == 'between':
            val = (_affinity(name, val[0]), _affinity(name, val[1]))
        else:
            val = _affinity(name, val)
        if op == 'in':
            if row[name] not in val:
                return False
        elif op == 'notin':
            if row[name] in val:
                return False
        elif op == 'eq':
            if row[name] != val:
                return False
        elif op == 'ne':
            if row[name] == val:
                return False
        elif op == 'gt':
            if not row[name] > val:
                return False
        elif op == 'ge':
            if not row[name] >= val:
                return False
        elif op == 'lt':
            if not row[name] < val:
                return False
        elif op == 'le':
            if not row[name] <= val:
                return False
        elif op == 'between':
            if not (val[0] <= row[name] <= val[1]):
                return False
        else:
            raise DataDependence('unknown SQL condition %r' % (op,))
    return True


class Result(list):
    def all(self):
        return list(self)

    fetchall = all

    def first(self):
        return self[0] if len(self) else None

    def one(self):
        assert len(self) == 1
        return self[0]

    def scalar(self):
        return self[0][0] if len(self) else None

    def scalars(self):
        return Result(r[0] for r in self)


class LazyResult:
    """A SELECT result as the DB-API hands it out: the first row is fetched at execute time, the others when the caller
    iterates -- rows that the same session deleted in the meantime are not returned any more.  ``all()`` / indexing
    materialise at once."""

    def __init__(self, session, pairs):
        self.session, self.pairs, self.done = session, pairs, False  # pairs: [(row id, output tuple)]

    def _rows(self):
        if self.done:
            return []
        self.done = True
        live = None if self.session.rows is None else [r['id'] for r in self.session.rows]
        out = []
        for n, (rid, tup) in enumerate(self.pairs):
            if n == 0 or live is None or rid in live:
                out.append(tup)
        return out

    def __iter__(self):
        return iter(self._rows())

    def all(self):
        return self._rows()

    fetchall = all

    def first(self):
        rows = self._rows()
        return rows[0] if rows else None

    def scalars(self):
        return Result(r[0] for r in self._rows())

    def scalar(self):
        rows = self._rows()
        return rows[0][0] if rows else None

    def __getitem__(self, i):
        return [t for _, t in self.pairs][i]

    def __len__(self):
        return len(self.pairs)


class ModelDB:
    def __init__(self, fs, path='/vroot/c/packs.idx'):
        self.fs = fs
        self.path = path
        self.versions = [[]]  # committed snapshots (list of row dicts)
        self.next_id = 1
        # WAL mode: commits go to <index>-wal, which exists while some connection is open; the main file holds the
        # version of the last checkpoint, and the last connection to close checkpoints everything
        self.conns = 0
        self.ckpt = 0

    def connected(self):
        self.conns += 1
        if self.conns == 1:
            for sfx in ('-wal', '-shm'):
                if self.path + sfx not in self.fs.files:
                    self.fs.files[self.path + sfx] = Node()

    def disconnected(self):
        self.conns -= 1
        if self.conns == 0:
            if self.ckpt != len(self.versions) - 1 and self.path in self.fs.files:
                self.fs.files[self.path].touch()  # the checkpoint rewrites pages of the main file
            self.ckpt = len(self.versions) - 1
            self.fs.files.pop(self.path + '-wal', None)
            self.fs.files.pop(self.path + '-shm', None)

    def main_rows(self):
        """rows visible in the main database file alone (without its -wal)"""
        return self.versions[self.ckpt if self.conns > 0 else -1]


class Engine:
    """SQLAlchemy engine of one session: the SQLite connection (a descriptor on packs.idx) is opened at the first
    statement, survives ``session.close()`` in the pool, and is closed only by ``dispose()``."""

    def __init__(self, fs=None, path='packs.idx', db=None):
        self.fs, self.path, self.fd, self.db = fs, path, None, db

    def connect(self):
        if self.fs is not None and self.fd is None:
            self.fs.fd_counter += 1
            self.fd = 7000 + self.fs.fd_counter
            self.fs.open_fds[self.fd] = self.path
            if self.db is not None:
                self.db.connected()

    def dispose(self):
        if self.fs is not None and self.fd is not None:
            self.fs.open_fds.pop(self.fd, None)
            self.fd = None
            if self.db is not None:
                self.db.disconnected()


class ModelSession:
    def __init__(self, db):
        self.db = db
        self.snap = None  # index of pinned version
        self.rows = None  # working copy when in txn
        self.dirty = False
        self.bind = Engine(db.fs, db.path, db)

    def _begin(self):
        self.bind.connect()
        if self.rows is None:
            self.snap = len(self.db.versions) - 1
            self.rows = [dict(r) for r in self.db.versions[self.snap]]

    def execute(self, stmt, params=None):
        self._begin()
        self.db.fs.tick(('sql', type(stmt).__name__))
        if isinstance(stmt, Text):
            s = stmt.s
            if s in ('COMMIT',):
                self.commit()
                return Result()
            if s == 'VACUUM':
                return Result()
            assert s.startswith('SELECT ') and s.endswith(' FROM db_object ORDER BY hashkey'), s
            cols = [c.strip() for c in s[len('SELECT ') : -len(' FROM db_object ORDER BY hashkey')].split(',')]
            rows = sorted(self.rows, key=lambda r: r['hashkey'])
            return Result(tuple(r[c] for c in cols) for r in rows)
        if isinstance(stmt, Insert):
            for d in params:
                if any(r['hashkey'] == d['hashkey'] for r in self.rows):
                    if stmt.or_ignore:
                        continue
                    raise RuntimeError('IntegrityError')
                d = {k: _affinity(k, v) for k, v in d.items()}
                if 'id' not in d:
                    d['id'] = self.db.next_id
                    self.db.next_id += 1
                self.rows.append(d)
            self.dirty = True
            return Result()
        if isinstance(stmt, Delete):
            self.rows = [r for r in self.rows if not _match(r, stmt.conds)]
            self.dirty = True
            return Result()
        if isinstance(stmt, Update):
            for r in self.rows:
                if _match(r, stmt.conds):
                    r.update({k: _affinity(k, v) for k, v in stmt.vals.items()})
            self.dirty = True
            return Result()
        assert isinstance(stmt, Select)
        rows = [r for r in self.rows if _match(r, stmt.conds)]
        if stmt.cols and isinstance(stmt.cols[0], Agg):
            a = stmt.cols[0]
            if a.kind == 'count':
                return Result([(len(rows),)])
            if a.kind in ('max', 'min'):
                vals = [r[a.col.name] for r in rows]
                if not vals:
                    return Result([(None,)])
                best = vals[0]
                for v in vals[1:]:
                    if (v > best) if a.kind == 'max' else (v < best):
                        best = v
                return Result([(best,)])
            tot = 0
            for r in rows:
                tot = tot + r[a.col.name]
            return Result([(tot,)])
        if stmt.order:
            rows = sorted(rows, key=lambda r: r[stmt.order], reverse=stmt.descending)
        else:
            rows = sorted(rows, key=lambda r: r['id'])
        if stmt.lim is not None:
            rows = rows[: stmt.lim]
        out = [tuple(r[c.name] for c in stmt.cols) for r in rows]
        if stmt.dist:
            seen = []
            for o in out:
                if o not in seen:
                    seen.append(o)
            return Result(seen)
        return LazyResult(self, [(r['id'], o) for r, o in zip(rows, out)])

    def scalar(self, stmt):
        return self.execute(stmt)[0][0]

    def scalars(self, stmt):
        return Result(r[0] for r in self.execute(stmt))

    def bulk_update_mappings(self, _, dicts):
        self._begin()
        self.db.fs.tick(('sql', 'bulk_update'))
        for d in dicts:
            for r in self.rows:
                if r['id'] == d['id']:
                    r.update({k: _affinity(k, v) for k, v in d.items()})
        self.dirty = True

    def commit(self):
        if self.rows is not None and self.dirty:
            self.db.fs.tick(('commit', self.rows))
            self.db.versions.append(self.rows)
        self.rows = None
        self.snap = None
        self.dirty = False

    def close(self):
        self.rows = None
        self.snap = None
        self.dirty = False

    def expire_all(self):
        """SQLAlchemy: forget loaded ORM state -- the open read transaction (the pinned snapshot) stays"""

    def rollback(self):
        self.close()

    def flush(self):
        """SQLAlchemy: send pending ORM changes to the connection (statements executed here take effect at once)"""


# ------------------------------------------------------------------ model hash / codec
class ModelHasher:
    """Accumulates abstract bytes; digest is the registered key of the object if data == whole object."""

    registry = {}  # (hash_type, oid) -> key
    ht = 'sha256'

    def __init__(self):
        self.acc = EMPTY

    def update(self, data):
        if not isinstance(data, Seg):
            if len(data) == 0:
                return
            raise DataDependence('hashing concrete bytes')
        self.acc = self.acc + data

    def hexdigest(self):
        ext = self.acc.ext
        if len(ext) == 0:
            return ModelHasher.registry[(self.ht, 'empty')]
        if len(ext) == 1:
            s, lo, hi = ext[0]
            if isinstance(s, tuple) and s[0] == 'obj' and lo == 0 and hi == s[2]:
                return ModelHasher.registry[(self.ht, s[1])]
        return ('ffff' + 'bad0' * 15)[: 64 if self.ht == 'sha256' else 40]


_HASHERS = {}


def hasher_cls(hash_type):
    if hash_type not in ('sha1', 'sha256'):
        raise ValueError('unknown hash type %r' % (hash_type,))
    if hash_type not in _HASHERS:
        _HASHERS[hash_type] = type('ModelHasher_' + hash_type, (ModelHasher,), {'ht': hash_type})
    return _HASHERS[hash_type]


class ModelIO:
    """``io`` inside container.py: BytesIO over abstract bytes is a MemStream"""

    @staticmethod
    def BytesIO(data=b''):
        if isinstance(data, Seg):
            return MemStream(data)
        if len(data) == 0:
            return MemStream(EMPTY)
        raise DataDependence('BytesIO over concrete bytes')


class ModelShutil:
    def __init__(self, fs, dbs=None):
        self.fs = fs
        self.dbs = dbs

    def rmtree(self, path):
        path = str(path)
        self.fs.tick(('rmtree', path))
        for q in [q for q in self.fs.files if q.startswith(path + '/')]:
            del self.fs.files[q]
        for q in [q for q in self.fs.dirs if q == path or q.startswith(path + '/')]:
            self.fs.dirs.discard(q)
        for q in self.dbs or ():
            if q.startswith(path + '/'):  # the index file went with the tree: an index created there later is empty
                db = self.dbs[q]
                db.versions, db.next_id, db.ckpt = [[]], 1, 0


# ------------------------------------------------------------------ model zlib (deterministic member of the contract)
class ZErr(Exception):
    """the model's zlib.error"""


ZEMPTY = 8  # length of the compressed stream of the empty string (real zlib: 8 bytes)


class ModelZlib:
    """Replacement for the ``zlib`` module inside disk_objectstore.utils.

    A compressed stream is an opaque token ``('z', src)`` of ``zlen[src]`` bytes (a symbolic length chosen by the
    harness, independent of the content length) that inflates to the whole object ``src``.  The compressor emits
    ``early`` bytes at its first ``compress()`` call and the rest at ``flush()``; the decompressor is a deterministic
    member of the documented zlib contract (see ModelDecompressObj).  Anything that is not the complete stream of a
    registered object does not inflate (``error``)."""

    error = ZErr

    def __init__(self):
        self.zlen = {}
        self.early = 0
        self.sample_len = 20
        self.counter = 0
        self.levels = []

    def total(self, tok):
        if tok[1] == 'empty':
            return ZEMPTY
        return self.zlen[tok[1][1]]  # keyed by the object id (a symbolic size must never be hashed)

    def content(self, tok):
        if tok[1] == 'empty':
            return EMPTY
        src = tok[1]
        return Seg([(src, 0, src[2])])

    def compressobj(self, level=-1, **kw):
        assert not kw and 1 <= level <= 9, (level, kw)
        self.levels.append(level)
        return ModelCompressObj(self)

    def decompressobj(self):
        return ModelDecompressObj(self)


class ModelCompressObj:
    def __init__(self, zl):
        self.zl, self.acc, self.emitted, self.tok = zl, EMPTY, 0, None

    def compress(self, data):
        if not isinstance(data, Seg):
            if len(data) == 0:
                return EMPTY
            raise DataDependence('compressing concrete bytes')
        first = len(self.acc.ext) == 0
        self.acc = self.acc + data
        if first and len(data.ext) > 0:
            src, lo, _ = data.ext[0]
            if isinstance(src, tuple) and src[0] == 'obj' and src[1] in self.zl.zlen and lo == 0:
                z = self.zl.zlen[src[1]]
                e = min(self.zl.early, z - 1)
                if e > 0:
                    self.tok = ('z', src)
                    self.emitted = e
                    return Seg([(self.tok, 0, e)])
        return EMPTY

    def flush(self):
        ext = self.acc.ext
        if len(ext) == 0:
            return Seg([(('z', 'empty'), 0, ZEMPTY)])
        if len(ext) == 1:
            src, lo, hi = ext[0]
            if isinstance(src, tuple) and src[0] == 'obj' and src[1] in self.zl.zlen and lo == 0 and hi == src[2]:
                if self.tok is None or self.tok == ('z', src):
                    return Seg([(('z', src), self.emitted, self.zl.zlen[src[1]])])
        # not the whole of one registered object (e.g. the sample of estimate_compression): an opaque stream
        self.zl.counter += 1
        n = self.zl.sample_len
        return Seg([(('zs', self.zl.counter), 0, n if n > self.emitted else self.emitted + 1)])[self.emitted :]


class ModelDecompressObj:
    """Deterministic inflater: the plain bytes become decodable once all but the last compressed byte were offered
    (the last byte stands for the checksum trailer); with ``max_length`` the output is cut, the last compressed byte is
    kept back in ``unconsumed_tail`` until all output was delivered (eof implies all output delivered), everything
    else offered is consumed.  Data that is not the continuation of one stream raises ``error``."""

    def __init__(self, zl):
        self.zl = zl
        self.tok = None
        self.c = 0
        self.p = 0
        self.unconsumed_tail = EMPTY
        self.unused_data = EMPTY
        self.eof = False

    def decompress(self, data, max_length=0):
        if not isinstance(data, Seg):
            if len(data) == 0:
                data = EMPTY
            else:
                raise DataDependence('concrete compressed data')
        if self.eof:
            self.unused_data = self.unused_data + data
            self.unconsumed_tail = EMPTY
            return EMPTY
        avail = 0
        if len(data.ext) > 0:
            tok, lo, hi = data.ext[0]
            if not (isinstance(tok, tuple) and tok[0] == 'z') or (self.tok is not None and tok != self.tok) or lo != self.c:
                raise ZErr('corrupt')
            self.tok = tok
            avail = hi - lo
        if self.tok is None:
            self.unconsumed_tail = EMPTY
            return EMPTY
        total = self.zl.total(self.tok)
        content = self.zl.content(self.tok)
        n = len(content)
        new_c = self.c + avail
        if len(data.ext) > 1 and new_c != total:
            raise ZErr('corrupt')  # the stream is interrupted by foreign bytes
        decodable = n if new_c >= total - 1 else 0
        want = decodable - self.p
        if max_length > 0 and want > max_length:
            out = max_length
            k = avail - 1 if (new_c == total and avail >= 1) else avail
        else:
            out = want
            k = avail
        res = content[self.p : self.p + out]
        self.c = self.c + k
        self.p = self.p + out
        self.eof = self.c == total
        rest = data[k:]
        if self.eof:
            self.unconsumed_tail = EMPTY
            self.unused_data = rest
        else:
            self.unconsumed_tail = rest
        return res


def install(fs, dbs, C, U):
    """Patch module globals of the real modules (no source edits)."""
    mos = ModelOS(fs)
    mopen = make_open(fs)

    def fstat(fd):
        return StatResult(len(fs.fdtable[fd].node.data), False)

    mos.fstat = fstat
    fs.os, fs.open = mos, mopen
    for M in (C, U):
        M.os = mos
        M.open = mopen
    U.get_hash_cls = hasher_cls
    C.get_hash_cls = hasher_cls
    C.select, C.delete, C.update, C.text, C.func, C.Obj = select, delete, update, text, Func, MObj
    C.and_, C.or_ = and_, or_

    def get_session(path, create=False):
        path = str(path)
        if path not in dbs:
            node = fs.files.get(path)
            if node is not None and node.dbrows is not None:
                # an index file that was copied there (a backup): SQLite replays a valid -wal found next to it
                wal = fs.files.get(path + '-wal')
                rows = wal.dbrows if (wal is not None and wal.dbrows is not None) else node.dbrows
                dbs[path] = ModelDB(fs, path)
                dbs[path].versions = [[dict(r) for r in rows]]
                dbs[path].next_id = 1 + max([r['id'] for r in rows] + [0])
            else:
                if not create:
                    raise FileNotFoundError(path)
                dbs[path] = ModelDB(fs, path)
                fs.files[path] = Node()
        elif create and path not in fs.files:
            fs.files[path] = Node()  # re-created after the folder was removed (init_container(clear=True))
        return ModelSession(dbs[path])

    C.get_session = get_session
    C.Engine = Engine
    C.io = ModelIO
    C.shutil = ModelShutil(fs, dbs)
    U.fcntl = ModelFcntl(fs)
    U.zlib = fs.zl = ModelZlib()
    return mos, mopen


class ModelPathMixin:
    pass


import pathlib


def make_path_class(fs):
    class MPath(pathlib.PurePosixPath):
        def exists(self):
            fs.observe()
            s = str(self)
            return s in fs.files or s in fs.dirs

        def is_file(self):
            fs.observe()
            return str(self) in fs.files

        def stat(self):
            fs.observe()
            s = str(self)
            if s in fs.files:
                return StatResult(len(fs.files[s].data), False)
            if s in fs.dirs:
                return StatResult(0, True)
            raise FileNotFoundError(s)

        def resolve(self, strict=False):
            return self

        def is_dir(self):
            fs.observe()
            return str(self) in fs.dirs

        def unlink(self, missing_ok=False):
            try:
                fs.os.remove(str(self))
            except FileNotFoundError:
                if not missing_ok:
                    raise

        def rename(self, target):
            fs.os.rename(str(self), str(target))
            return type(self)(str(target))

        def replace(self, target):
            fs.os.replace(str(self), str(target))
            return type(self)(str(target))

        def mkdir(self, mode=0o777, parents=False, exist_ok=False):
            if parents:
                fs.os.makedirs(str(self), exist_ok=exist_ok)
                return
            try:
                fs.os.mkdir(str(self))
            except FileExistsError:
                if not exist_ok:
                    raise

        def rmdir(self):
            fs.os.rmdir(str(self))

        def iterdir(self):
            return [self / name for name in fs.os.listdir(str(self))]

        def open(self, mode='r', **kw):
            return fs.open(str(self), mode, **kw)

        def read_bytes(self):
            with fs.open(str(self), 'rb') as handle:
                return handle.read()

        def touch(self, exist_ok=True):
            if str(self) not in fs.files:
                fs.open(str(self), 'wb').close()

        def samefile(self, other):
            return str(self) == str(other)

    return MPath


class ModelFcntl:
    """Linux contract: no F_FULLFSYNC attribute; cmd 0 is F_DUPFD (returns a new descriptor, syncs nothing)."""

    def __init__(self, fs):
        self.fs = fs

    def fcntl(self, fd, cmd, arg=0):
        self.fs.tick(('fcntl', fd, cmd))
        if cmd == 0:  # F_DUPFD: a new descriptor, nothing synced
            self.fs.fd_counter += 1
            fd = 9000 + self.fs.fd_counter
            self.fs.open_fds[fd] = 'dup of %r' % (fd,)
            return fd
        return 0




class MemStream:
    """A readable, seekable input stream over abstract bytes (what a caller hands to add_streamed_object*)."""

    mode = 'rb'

    def __init__(self, data):
        self.data, self.pos, self.closed = data, 0, False

    def __enter__(self):
        return self

    def __exit__(self, *a):
        self.close()

    def close(self):
        self.closed = True

    def seekable(self):
        return True

    def tell(self):
        return self.pos

    def seek(self, target, whence=0):
        if whence == 1:
            target = self.pos + target
        elif whence == 2:
            target = len(self.data) + target
        if target < 0:
            raise OSError(errno.EINVAL, 'Invalid argument')
        self.pos = target
        return target

    def read(self, n=-1):
        size = len(self.data)
        if n is None or n < 0:
            n = max(0, size - self.pos)
        n = min(n, max(0, size - self.pos))
        r = self.data[self.pos : self.pos + n]
        self.pos = self.pos + n
        return r


class ShortStream(MemStream):
    """io.RawIOBase contract: a read may return fewer bytes than asked (but at least one while data remains).  The
    first read returns at most ``cut`` bytes."""

    def __init__(self, data, cut):
        MemStream.__init__(self, data)
        self.cut = cut

    def read(self, n=-1):
        if self.cut > 0 and (n is None or n < 0 or n > self.cut):
            n = self.cut
        self.cut = 0
        return MemStream.read(self, n)
