"""One cell = one harness function analysed by CrossHair (z3) in one process; or one concrete run of it (replay).

usage:  python -m vf.chrun sym  <module> <function> <per_condition_timeout> [seed]
        python -m vf.chrun run  <module> <function> <json kwargs> <model|real>
Prints one JSON object on the last line of stdout.
"""
import ast
import importlib
import inspect
import json
import os
import sys
import time
import traceback


def parse_call(message, fn):
    """Counterexample arguments from CrossHair's message 'false when calling f(a, b=1) (which returns ...)'."""
    if 'when calling ' not in message:
        return None
    src = message.split('when calling ', 1)[1]
    for tail in (' (which returns', ' (which raises'):
        if tail in src:
            src = src.rsplit(tail, 1)[0]
    try:
        call = ast.parse(src.strip(), mode='eval').body
        names = list(inspect.signature(fn).parameters)
        out = {}
        for n, a in zip(names, call.args):
            out[n] = ast.literal_eval(a)
        for kw in call.keywords:
            out[kw.arg] = ast.literal_eval(kw.value)
        return out
    except Exception:
        return None


def sym(modname, fname, timeout, seed):
    import z3
    import crosshair.core as core
    from crosshair.core_and_libs import analyze_function, run_checkables
    from crosshair.options import AnalysisKind, AnalysisOptionSet

    stats = dict(solver_checks=0, solver_s=0.0, paths=0, ignored=0)
    _orig_check = z3.Solver.check

    from crosshair.tracers import NoTracing

    def counted_check(self, *a):
        # NoTracing: CrossHair intercepts time.time() while tracing (it would hand back a symbolic float)
        with NoTracing():
            t = time.time()
            r = _orig_check(self, *a)
            stats['solver_s'] += time.time() - t
            stats['solver_checks'] += 1
        return r

    z3.Solver.check = counted_check
    _orig_exit = core.ExceptionFilter.__exit__

    def counted_exit(self, et, ev, tb):
        r = _orig_exit(self, et, ev, tb)
        if self.ignore and not (getattr(self, 'analysis', None) and self.analysis.verification_status is not None):
            stats['ignored'] += 1
        return r

    core.ExceptionFilter.__exit__ = counted_exit
    _orig_attempt = core.attempt_call

    def counted_attempt(*a, **kw):
        stats['paths'] += 1
        return _orig_attempt(*a, **kw)

    core.attempt_call = counted_attempt

    import random

    random.seed(seed)
    mod = importlib.import_module(modname)
    fn = getattr(mod, fname)
    opts = AnalysisOptionSet(
        per_condition_timeout=float(timeout),
        per_path_timeout=float(os.environ.get('VF_PATH_TIMEOUT', '60')),
        report_all=True,
        analysis_kind=[AnalysisKind.PEP316],
    )
    t = time.time()
    msgs = list(run_checkables(analyze_function(fn, opts)))
    out = dict(stats, wall_s=round(time.time() - t, 2), module=modname, function=fname)
    out['solver_s'] = round(out['solver_s'], 3)
    out['messages'] = [(m.state.name, m.message) for m in msgs]
    states = [m.state.name for m in msgs]
    if any(s in ('POST_FAIL', 'EXEC_ERR', 'POST_ERR', 'PRE_INVALID', 'SYNTAX_ERR', 'IMPORT_ERR') for s in states):
        bad = [m for m in msgs if m.state.name in ('POST_FAIL', 'EXEC_ERR', 'POST_ERR')]
        if bad:
            out['status'] = 'REFUTED'
            out['cex'] = parse_call(bad[0].message, fn)
            out['cex_message'] = bad[0].message
        else:
            out['status'] = 'ERROR'
    elif states and all(s == 'CONFIRMED' for s in states):
        out['status'] = 'CONFIRMED' if stats['ignored'] == 0 else 'IGNORED_PATHS'
    else:
        out['status'] = 'UNKNOWN'  # timeout / CANNOT_CONFIRM / PRE_UNSAT
    return out


def run(modname, fname, kwargs, mode):
    import vf.world as W

    W.MODE = mode
    mod = importlib.import_module(modname)
    fn = getattr(mod, fname)
    t = time.time()
    try:
        if mode == 'model':
            # concrete values, but under CrossHair's tracer: its patches (bytes.join over abstract bytes, ...) are the
            # ones the symbolic run uses
            from crosshair.core_and_libs import standalone_statespace

            with standalone_statespace:
                r = bool(fn(**kwargs))
        else:
            r = fn(**kwargs)
        return dict(result=bool(r), exc=None, wall_s=round(time.time() - t, 2))
    except Exception as e:  # an exception escaping the harness violates `post: _` just like False
        return dict(result=False, exc=''.join(traceback.format_exception_only(type(e), e)).strip(), wall_s=round(time.time() - t, 2))


def main():
    sys.path.insert(0, os.path.dirname(os.path.dirname(os.path.abspath(__file__))))
    cmd = sys.argv[1]
    if cmd == 'sym':
        out = sym(sys.argv[2], sys.argv[3], sys.argv[4], int(sys.argv[5]) if len(sys.argv) > 5 else 0)
    else:
        out = run(sys.argv[2], sys.argv[3], json.loads(sys.argv[4]), sys.argv[5])
    print(json.dumps(out))


if __name__ == '__main__':
    main()
