"""Which cells decide which property.  A cell = one harness function (PEP316 contract) analysed by CrossHair/z3.

timeout = (quick, thorough) per-condition CrossHair budget in seconds.  ``samples``: concrete inputs run on BOTH worlds
before the solver run (differential validation of the model environment).  ``replay_sweep``: dimensions whose numbering
differs between the model and the real environment (I/O step indices) and are therefore enumerated by the replay.
"""

COMMON_ASSUMPTIONS = [
    'bounded: every verdict holds only inside the bounds written in the harness `pre:` lines (see samples[].bounds)',
    'model environment (vf/menv.py): POSIX/CPython buffered-file semantics incl. O_APPEND, atomic directory operations, '
    'SQLite modelled as snapshot-isolated sessions over committed versions with atomic durable commits',
    'abstract bytes: object contents are opaque extents with symbolic lengths; any data-dependent use raises',
    'hashlib modelled as an injective key table (collision freedom trusted); zlib not exercised (compress=False paths) '
    'unless stated',
    'CrossHair 0.0.110 + z3: "CONFIRMED" = every execution path within the bounds explored, no counterexample',
    'solver counterexamples are replayed on the real file system / SQLite / hashlib before being reported',
]

B_PACK = 'h0,h1 in [0,3]; sp,s1 in [1,140000]; s0 in [0,140000]; pack_size_target in [1,400000]; clean symbolic'
S_PACK = [
    dict(h0=1, sp=10, h1=2, s0=0, s1=70000, target=20, clean=True),
    dict(h0=0, sp=70000, h1=0, s0=5, s1=131072, target=400000, clean=False),
]
B_DIRECT = 'h0 in [0,3]; s0,s1,s2 in [1,70000]; duplicate position in [0,3]; target in [1,300000]; no_holes, read_twice symbolic'
S_DIRECT = [
    dict(h0=1, s0=10, s1=70000, s2=5, pos=1, target=300000, no_holes=True, read_twice=False),
    dict(h0=0, s0=10, s1=7, s2=5, pos=3, target=12, no_holes=False, read_twice=True),
]
B_LOOSE = 's0 in [0,140000]; s1 in [1,140000]; existing form in {loose, packed, both}; damaged loose copy symbolic; first read of the new input stream short by a symbolic amount'
S_LOOSE = [dict(s0=10, s1=70000, form=2, damaged=True, cut=0), dict(s0=0, s1=70000, form=0, damaged=False, cut=4096)]
B_CRASH = 'h0 in [0,2]; sp,s0,s1 in [1,70000]; target in [1,200000]; crash/fault index in the slice named by the cell'
S_CRASH = dict(h0=1, sp=10, s0=66000, s1=5, target=12)
SWEEP = list(range(1, 61))
B_READER = 'pack_size <= 2000000; any offset/length inside; ops in {read(n), tell, seek(t,0|1|2)}; |args| <= 2000100'
B_ZREAD = 'object size n <= 2000000; compressed size total in [2,2000000]; symbolic stream state (pos, consumed c, unconsumed tail u <= 524288, produced p); tape of <= 5 oracle draws'
S_ZREAD = dict(n=100, total=40, before=1, pos=0, c=0, u=0, a=30, tape=[0, 10, 30])
B_HANDLES = 'sp,s0,s1 in [1,70000]; first query in {none,has,list,meta,get}; pack, clean symbolic; second query in {has,get,meta,list}'


from harness.slices import NOFSYNC, OPS, slices_for  # noqa: E402


def cell(name, module, function, timeout, **kw):
    return dict(name=name, module=module, function=function, timeout=timeout, **kw)


B_PACK = 'h0,h1 in [0,3]; sp,s1 in [1,SMAX]; s0 in [0,SMAX]; pack_size_target in [1,3*SMAX]; SMAX=100000 (quick) / 200000 (thorough cells); clean_loose_per_pack fixed per cell'
S_PACK = [dict(h0=1, sp=10, h1=2, s0=0, s1=70000, target=20), dict(h0=0, sp=70000, h1=0, s0=5, s1=66000, target=300000)]
B_DIRECT = 'h0 in [0,3]; s0,s1,s2 in [1,SMAX]; target in [1,4*SMAX]; SMAX=70000 (quick) / 140000 (thorough cells); duplicate position and no_holes fixed per cell; no_holes_read_twice symbolic'
S_DIRECT = [dict(h0=1, s0=10, s1=66000, s2=5, target=280000, read_twice=False), dict(h0=0, s0=10, s1=7, s2=5, target=12, read_twice=True)]


def pack_cells(what, expect=None):
    out = []
    for smax in (100000, 200000):
        for clean in ('clean', 'keep'):
            name = 'pack_%s_%d_%s' % (what, smax, clean)
            c = cell(name, 'harness.g_pack', name, (540, 900), bounds=B_PACK, thorough_only=(smax == 200000))
            if expect:
                c['expect'] = expect
                c['timeout'] = (120, 300)
            else:
                c['samples'] = S_PACK
            out.append(c)
    return out


def direct_cells(what, expect=None):
    out = []
    for smax in (70000, 140000):
        for pos in (0, 1, 2, 3):
            for nh in ('noholes', 'holes'):
                name = 'direct_%s_%d_p%d_%s' % (what, smax, pos, nh)
                c = cell(name, 'harness.g_direct', name, (540, 900), bounds=B_DIRECT, thorough_only=(smax == 140000))
                if expect:
                    if pos or nh == 'holes':
                        continue
                    c['expect'] = expect
                    c['timeout'] = (120, 300)
                else:
                    c['samples'] = S_DIRECT
                out.append(c)
    return out


PACK_INV, PACK_VIEWS, PACK_VALIDATE = pack_cells('inv'), pack_cells('views'), pack_cells('validate')
PACK_REACH = pack_cells('reach', 'REFUTED')[1:2]
DIRECT_INV, DIRECT_VIEWS = direct_cells('inv'), direct_cells('views')
DIRECT_REACH = direct_cells('reach', 'REFUTED')[:1]
LOOSE_INV = [cell('loose_inv', 'harness.h_direct', 'loose_inv', (300, 900), bounds=B_LOOSE, samples=S_LOOSE),
             cell('loose_inv_big', 'harness.h_direct', 'loose_inv_big', (400, 900),
                  bounds='s0 in [140000, 6300000] (up to 12 read chunks of 512 KiB); existing form in {loose, packed, both}; damaged loose copy symbolic',
                  samples=[dict(s0=4500000, form=0, damaged=True), dict(s0=1048576, form=2, damaged=False)])]
LOOSE_VIEWS = [cell('loose_views', 'harness.h_direct', 'loose_views', (300, 900), bounds=B_LOOSE, samples=S_LOOSE)]
B_DELETE = 'h0 in [0,3]; s0..s3 in [1,70000]; any subset of {obj0 loose, obj1 loose+packed, obj2 packed, obj3 packed} plus an absent key'
S_DELETE = [dict(h0=2, s0=5, s1=66000, s2=9, s3=11, d0=True, d1=True, d2=False, d3=True, dabs=True),
            dict(h0=0, s0=5, s1=7, s2=9, s3=11, d0=False, d1=False, d2=True, d3=False, dabs=False)]
DELETE_REPACK = [cell('delete_repack', 'harness.h_delete', 'delete_repack', (400, 1500), bounds=B_DELETE, samples=S_DELETE)]
DELETE_VIEWS = [cell('delete_views', 'harness.h_delete', 'delete_views', (400, 1500), bounds=B_DELETE, samples=S_DELETE)]
B_DAMAGE = 'h0 in [0,2]; s0,s1,s2 in [1,70000]; damage parameters symbolic over the whole file / +-70003 for row fields'
S_DAMAGE = dict(h0=2, s0=5, s1=7, s2=9)
DAMAGE = [
    cell('damage_loose', 'harness.h_damage', 'damage_loose', (200, 600), bounds=B_DAMAGE, samples=[dict(S_DAMAGE, n=3), dict(S_DAMAGE, n=5)]),
    cell('damage_offset', 'harness.h_damage', 'damage_offset', (200, 600), bounds=B_DAMAGE, samples=[dict(S_DAMAGE, a=-5), dict(S_DAMAGE, a=1)]),
    cell('damage_length', 'harness.h_damage', 'damage_length', (200, 600), bounds=B_DAMAGE, samples=[dict(S_DAMAGE, a=-1), dict(S_DAMAGE, a=50)]),
    cell('damage_size', 'harness.h_damage', 'damage_size', (200, 600), bounds=B_DAMAGE, samples=[dict(S_DAMAGE, a=-1)]),
    cell('damage_truncate', 'harness.h_damage', 'damage_truncate', (200, 600), bounds=B_DAMAGE, samples=[dict(S_DAMAGE, a=0), dict(S_DAMAGE, a=10)]),
    cell('damage_flip', 'harness.h_damage', 'damage_flip', (200, 600), bounds=B_DAMAGE, samples=[dict(S_DAMAGE, a=0, n=2), dict(S_DAMAGE, a=5, n=9)]),
    cell('damage_zloose', 'harness.h_damage', 'damage_zloose', (300, 900), bounds=B_DAMAGE + '; obj2 packed (compressed or not) AND loose, loose copy damaged', samples=[dict(S_DAMAGE, s2=900, n=3, z2=True, z=30), dict(S_DAMAGE, s2=900, n=900, z2=False, z=30)]),
    cell('damage_zflag', 'harness.h_damage', 'damage_zflag', (300, 900), bounds=B_DAMAGE + '; compressed flag of a row flipped', samples=[dict(S_DAMAGE, s2=900, z2=True, z=30), dict(S_DAMAGE, s2=900, z2=False, z=30)]),
    cell('damage_zpack', 'harness.h_damage', 'damage_zpack', (300, 900), bounds=B_DAMAGE + '; compressed obj2: sub-range flipped or pack truncated', samples=[dict(S_DAMAGE, s2=900, a=10, n=5, z=30), dict(S_DAMAGE, s2=900, a=12, n=0, z=30)]),
    cell('damage_zrow', 'harness.h_damage', 'damage_zrow', (300, 900), bounds=B_DAMAGE + '; offset/length/size of the row of a compressed object perturbed', samples=[dict(S_DAMAGE, s2=900, a=-3, field=0, z=30), dict(S_DAMAGE, s2=900, a=3, field=1, z=30), dict(S_DAMAGE, s2=900, a=-3, field=2, z=30)]),
    cell('damage_packid', 'harness.h_damage', 'damage_packid', (200, 600), bounds=B_DAMAGE + '; pack_id of a row perturbed', samples=[dict(S_DAMAGE, a=1)]),
    cell('damage_multi', 'harness.h_damage', 'damage_multi', (300, 900), bounds='three packs of one object each (plain, compressed, plain), a symbolic sub-range of one of them flipped; sizes in [1,70000]',
         samples=[dict(s1=5, s2=900, s3=7, which=0, a=0, n=1, z=30), dict(s1=5, s2=900, s3=7, which=1, a=3, n=2, z=30), dict(s1=5, s2=900, s3=7, which=2, a=6, n=1, z=30)]),
    cell('damage_reach', 'harness.h_damage', 'damage_reach', (120, 300), bounds=B_DAMAGE, expect='REFUTED'),
]
DUPS = [
    cell('dups_delete', 'harness.h_delete', 'dups_delete', (300, 900), bounds='stray duplicates/<key>.<tag> files (two for a loose object, one for a packed one); delete_objects of any subset removes exactly the duplicates of the deleted keys; sizes in [1,70000]',
         samples=[dict(s0=66000, s2=5, d0=True, d2=False, good=True), dict(s0=5, s2=7, d0=False, d2=True, good=False)]),
    cell('dups_clean', 'harness.h_delete', 'dups_clean', (300, 900), bounds='clean_storage with stray duplicates: removed when the object is intact, a damaged loose object is repaired from a good duplicate, InconsistentContent (nothing lost) when all are corrupt',
         samples=[dict(s0=66000, s2=5, damaged=True, good=True), dict(s0=5, s2=7, damaged=True, good=False), dict(s0=5, s2=7, damaged=False, good=False)]),
]
PAGING = [cell('paging', 'harness.h_cfg', 'paging', (400, 1200), bounds='the two primary-key paging loops (list_all_objects; known-keys scan of no_holes) with the literal page size 1000 replaced by a symbolic 1..3 through a checked source rewrite (vf/world.py paged): 4 packed + 1 loose object',
               samples=[dict(page=1, s0=5, nh=True), dict(page=3, s0=5, nh=False)])]
DELETE_REACH = [cell('delete_reach', 'harness.h_delete', 'delete_reach', (120, 300), bounds=B_DELETE, expect='REFUTED')]


B_CRASH_Q = 'h0 in [0,1]; sp,s1 in [1,100]; s0 in [1,70000]; target in [1,70200]; crash/fault index in the slice named by the cell'


def crash_cells(kind, ops):
    """quick: q_* cells (only s0 straddles the 64 KiB chunk size); thorough: additionally the wide cells."""
    out = []
    for prefix, bounds, thorough_only in (('q_', B_CRASH_Q, False), ('', B_CRASH, True)):
        for op in ops:
            if kind == 'power' and op in NOFSYNC:
                continue
            for lo, hi in slices_for(kind, op):
                name = '%s%s_%s_%d' % (prefix, kind, op, lo)
                out.append(
                    cell(name, 'harness.g_crash', name, (480 if kind == 'fault' else 300, 600), thorough_only=thorough_only,
                         bounds=bounds + '; op=%s; index slice [%d,%d]' % (op, lo, hi),
                         samples=[dict(S_CRASH, at=lo + 2)], replay_sweep={'at': SWEEP})
                )
            out.append(cell(prefix + 'reach_' + op, 'harness.g_crash', prefix + 'reach_' + op, (120, 300), expect='REFUTED',
                            thorough_only=thorough_only, bounds=bounds + '; op=%s; twin: some crash index in [1,3] is reached' % op))
            out.append(cell(prefix + 'bound_' + op, 'harness.g_crash', prefix + 'bound_' + op, (300, 900), samples=[S_CRASH],
                            thorough_only=thorough_only,
                            bounds=bounds + '; op=%s; unwinding check: the operation never takes more than 50 steps' % op))
    return out


def monitor_cells(ops):
    out = []
    for prefix, bounds, thorough_only in (('q_', B_CRASH_Q, False), ('', B_CRASH, True)):
        for op in ops:
            if op != 'delete' and op not in NOFSYNC:
                out.append(cell(prefix + 'monitor_' + op, 'harness.g_crash', prefix + 'monitor_' + op, (300, 900),
                                bounds=bounds + '; op=' + op, samples=[S_CRASH], thorough_only=thorough_only))
    return out


# ---------------------------------------------------------------- compression (C10 and the compressed paths of C01 C02 C03 C12 C13)
B_COMP = ('one object of size in [1,70000] (AUTO cells: size 2000 and compressed length 300 or 1800 literal -- the ratio tests are float divisions) with a compressed '
          'length symbolic in [2,70000] independent of its size; the other objects literal (0 and 3 bytes, compressed '
          'lengths 2 and 4); 1 byte emitted by the first compress() call; ')
S_COMP = [dict(s1=2000, z1=300, target=2500), dict(s1=66000, z1=1900, target=3)]
S_CREPACK = [dict(s1=2000, z1=300, f0=True, f1=False), dict(s1=66000, z1=1900, f0=False, f1=True)]
S_CDIRECT = [dict(s1=66000, z1=300, target=70000, read_twice=True), dict(s1=66000, z1=300, target=320, read_twice=False)]
_CM = ('yes', 'no', 'keep', 'auto300', 'auto1800', 'true', 'false')
CPACK = [cell('cpack_check_%s_%s' % (m, f), 'harness.g_comp', 'cpack_check_%s_%s' % (m, f), (500, 1500),
              # the real compressed lengths and the order in which the real key set is traversed differ from the model's:
              # the replay also tries nearby pack targets and two sizes of the big object
              replay_sweep={'target': list(range(1, 80)), 's1': [40, 66000]},
              samples=[dict(target=2500), dict(target=3)] if m.startswith('auto') else S_COMP,
              bounds=B_COMP + 'pack_all_loose(compress=%s) next to a %s packed object; symbolic pack target' % (m, 'compressed' if f == 'z' else 'plain'))
         for m in _CM for f in ('z', 'p')]
CREPACK = [cell('crepack_check_' + m, 'harness.g_comp', 'crepack_check_' + m, (500, 1500),
                samples=[dict(f0=True, f1=False), dict(f0=False, f1=True)] if m.startswith('auto') else S_CREPACK,
                bounds=B_COMP + 'repack(%s) of a pack with holes holding two objects in symbolic forms' % m)
           for m in ('yes', 'no', 'keep', 'auto300', 'auto1800')]
CREPACK2 = [cell('crepack2_%s_%s' % (a, b), 'harness.g_comp', 'crepack2_%s_%s' % (a, b), (900, 1800),
                 samples=[dict(f0=True, f1=False), dict(f0=False, f1=True)] if 'auto' in (a, b) else S_CREPACK,
                 thorough_only=True, bounds=B_COMP + 'two chained repacks (%s then %s)' % (a, b))
            for a in ('yes', 'no', 'keep', 'auto') for b in ('yes', 'no', 'keep', 'auto')]
CDIRECT = [cell('cdirect_check_p%d_%s' % (d, nh), 'harness.g_comp', 'cdirect_check_p%d_%s' % (d, nh), (500, 1500), samples=S_CDIRECT,
                bounds=B_COMP + 'add_streamed_objects_to_pack(compress=True), duplicate at batch position %d, %s' % (d, nh))
           for d in (0, 1, 2, 3) for nh in ('noholes', 'holes')]
COMP_REACH = [cell('cpack_reach_yes_z', 'harness.g_comp', 'cpack_reach_yes_z', (200, 400), expect='REFUTED'),
              cell('crepack_reach_auto300', 'harness.g_comp', 'crepack_reach_auto300', (200, 400), expect='REFUTED'),
              cell('cdirect_reach_p1_noholes', 'harness.g_comp', 'cdirect_reach_p1_noholes', (200, 400), expect='REFUTED')]
SHOULD = [
    cell('should_modes', 'harness.h_comp', 'should_modes', (300, 900), bounds='YES/NO/KEEP; length,size in [0,300000]; stream position symbolic',
         samples=[dict(mode=2, source_compressed=True, length=50, size=100, spos=3, zs=20, z=30)]),
] + [
    cell('should_auto_packed_%d_%d' % (size, length), 'harness.h_comp', 'should_auto_packed_%d_%d' % (size, length), (300, 900),
         bounds='AUTO on a compressed source of size %d stored in %d bytes (both literal: the ratio test is a float division): decision = length/size < 0.9 (size 0: never); stream position symbolic' % (size, length),
         samples=[dict(spos=0, zs=20, z=30), dict(spos=size, zs=20, z=30)])
    for size, length in ((0, 0), (0, 5), (1, 0), (1, 1), (10, 8), (10, 9), (10, 10), (1000, 0), (1000, 899), (1000, 900), (1000, 901),
                         (1000, 1200), (299999, 269999), (299999, 270000))
] + [
    cell('should_auto_plain_%d' % size, 'harness.h_comp', 'should_auto_plain_%d' % size, (400, 900),
         bounds='AUTO on an uncompressed source of size %d (literal), symbolic stream position, sample compressing to 10 or to 400000 bytes: position restored' % size,
         samples=[dict(spos=0, worth=True), dict(spos=size, worth=False)])
    for size in (0, 1, 1023, 1024, 1025, 5000, 131071, 131072, 131073, 200000, 300000)
]
F_COMP = ['utils.should_compress', 'utils.estimate_compression', 'utils.get_compressobj_instance',
          'utils._get_compression_algorithm_info', 'utils.ZlibStreamDecompresser', 'Container.repack', 'Container.repack_pack',
          'Container.get_total_size', 'Container.get_objects_meta', 'Container.validate']
A_COMP = ('zlib replaced by a deterministic member of its documented contract (vf/menv.py ModelZlib: a compressed stream is an '
          'opaque token of symbolic length that inflates to the whole object; the inflater delivers the plain bytes once all '
          'but the last compressed byte were offered and honours max_length / unconsumed_tail / eof; anything else is a codec '
          'error); the compression level reaches only this stub (asserted to be 1..9); correctness of zlib itself trusted')


# ---------------------------------------------------------------- import (C14)
from harness import gen as _gen  # noqa: E402

_IMP_DEFAULT = dict(kind=0, cb=True, f0=1, f1=2, d1=1, s0=66000, s1=7, s2=5, s3=3, z0=30, r0=True, r1=True, r2=True,
                    rabs=True, rep=True, tmb=6, compress=True, target=50)
_IMP_DEFAULT2 = dict(_IMP_DEFAULT, f0=2, f1=0, d1=2, s0=9, tmb=70000, compress=False, target=10**4, rep=False, kind=3)
B_IMPORT = ('source container: obj0/obj1 in forms {loose, packed, packed compressed}, obj2 loose; destination: obj3 packed '
            'after a hole, obj1 absent/loose/packed; requested subset + absent key + repeated key; s0 in [1,70000], other '
            'sizes <= 100; target_memory_bytes and destination pack_size_target in [1,80000]; parameters fixed per cell: ')


def import_cells():
    out = []
    for name, fixed in _gen.import_cells().items():
        free = [p[0] for p in _gen.IMPORT_SPEC if p[0] not in fixed]
        c = cell(name, 'harness.g_import', name, (400, 1200), bounds=B_IMPORT + repr(fixed))
        if fixed.get('what') == 'reach':
            c['expect'] = 'REFUTED'
            c['timeout'] = (200, 400)
        else:
            c['samples'] = [{k: _IMP_DEFAULT[k] for k in free}, {k: _IMP_DEFAULT2[k] for k in free}]
        out.append(c)
    return out


IMPORT = import_cells()


ALL_OPS = OPS
F_WRITE = [
    'Container.pack_all_loose', 'Container.clean_storage', 'Container.add_streamed_objects_to_pack',
    'Container.add_streamed_object', 'Container._write_data_to_packfile', 'Container._get_pack_id_to_write_to',
    'Container.lock_pack', 'utils.ObjectWriter.__enter__/__exit__', 'utils.HashWriterWrapper', 'utils.safe_flush_to_disk',
    'utils.compute_hash_and_size',
]
F_READ = [
    'Container._get_objects_stream_meta_generator', 'Container.has_objects', 'Container.get_objects_content',
    'Container.get_object_content', 'Container.get_objects_meta', 'Container.list_all_objects',
    'Container.count_objects', 'utils.PackedObjectReader',
]

CPACK_YES = [c for c in CPACK if c['name'].startswith(('cpack_check_yes', 'cpack_check_auto300'))]
DELETE_CHUNKS = [
    cell('delete_chunks', 'harness.h_delete', 'delete_chunks', (500, 1500), bounds=B_DELETE + '; _IN_SQL_MAX_LENGTH in [1,3]; obj2 stored compressed (5 bytes), obj3 plain; absent key always requested',
         samples=[dict(s0=66000, s2=300, d0=True, d1=True, d2=False, d3=True, in_max=1),
                  dict(s0=5, s2=9, d0=False, d1=False, d2=True, d3=False, in_max=2)]),
    cell('delete_repack_pack', 'harness.h_delete', 'delete_repack_pack', (500, 1500), bounds=B_DELETE + '; as delete_chunks, then repack_pack(0) alone and a NEW handle',
         samples=[dict(s0=66000, s2=300, d0=True, d1=True, d2=False, d3=True, in_max=1)]),
]
IMPORT_FORMS = [c for c in IMPORT if c['name'].startswith('imp_forms_')]
IMPORT_DEDUP = [c for c in IMPORT if c['name'].startswith(('imp_target_', 'imp_kind_s256_s256_list_nocb', 'imp_kind_s1_s256_list_nocb'))]
IMPORT_TARGET = [c for c in IMPORT if c['name'].startswith('imp_target_')]
ZREAD = [cell('zread_small', 'harness.h_zread', 'zread_small', (540, 1500), bounds=B_ZREAD + '; 0 <= a <= 524288', samples=[S_ZREAD], replay_mode='model'),
         cell('zread_big', 'harness.h_zread', 'zread_big', (540, 1500), bounds=B_ZREAD + '; 524288 < a <= 2100000',
              samples=[dict(S_ZREAD, a=600000, tape=[0, 40, 100])], replay_mode='model')]
CFG = [cell('cfg_%s_p%d' % (ht, pl), 'harness.h_cfg', 'cfg_%s_p%d' % (ht, pl), (400, 1200),
            bounds='hash_type=%s, loose_prefix_len=%d: add loose (bytes and stream), pack_all_loose, direct to pack, read back through every view and in chunks; one object in [1,70000], the others 0..3 bytes' % (ht, pl),
            samples=[dict(s0=0, s1=66000, s2=3), dict(s0=3, s1=7, s2=1)])
       for ht in ('sha1', 'sha256') for pl in (0, 1, 2, 3)]
PACKID = [cell('packid_e%d_k%s' % (e, k), 'harness.h_cfg', 'packid_e%d_k%s' % (e, k), (400, 1200),
               bounds='_get_pack_id_to_write_to: %d existing packs of sizes in [0,1000], target in [1,1000], cached id enumerated over None, 0..3 (states with a cached id above the first non-full pack are skipped), known_sizes %s' % (e, 'absent' if k == 'n' else 'for the last pack'),
               samples=[dict(n0=10, n1=3, n2=9, target=5, kv=7), dict(n0=10, n1=30, n2=9, target=5, kv=0)])
          for e, k in ((0, 'n'), (1, 'n'), (1, '0'), (2, 'n'), (2, '1'), (3, 'n'), (3, '2'))]
BULK_PACK = [cell('bulk_pack', 'harness.h_cfg', 'bulk_pack', (400, 1200),
                  bounds='pack_all_loose + clean_storage with _IN_SQL_MAX_LENGTH in [1,2] and _MAX_CHUNK_ITERATE_LENGTH in [0,3] (both lookup strategies), sizes in [1,1000]',
                  samples=[dict(s0=5, s1=7, s2=9, in_max=1, chunk_max=0, clean=True), dict(s0=5, s1=7, s2=9, in_max=2, chunk_max=3, clean=False)])]
SINGLE = [cell('single_pack', 'harness.h_direct', 'single_pack', (400, 1200),
               bounds='add_streamed_object_to_pack (single-object wrapper through CallbackStreamWrapper): known and new content, no_holes / no_holes_read_twice / compress / callback symbolic, sizes in [1,70000], symbolic pack target',
               samples=[dict(s0=66000, s1=5, target=100, no_holes=True, read_twice=False, compress=True, cb=True),
                        dict(s0=5, s1=66000, target=100000, no_holes=False, read_twice=True, compress=False, cb=False)])]
DIRECT_SHORT = [cell('direct_short', 'harness.h_direct', 'direct_short', (500, 1500),
                     bounds='add_streamed_objects_to_pack from a stream whose first read is short by a symbolic amount; sizes in [1,70000]; no_holes, no_holes_read_twice, pack target symbolic',
                     samples=[dict(s1=5, s2=66000, cut=4096, target=100, no_holes=True, read_twice=True), dict(s1=5, s2=9, cut=1, target=70000, no_holes=False, read_twice=False)])]
REINIT = [cell('reinit_packid', 'harness.h_cfg', 'reinit_packid', (400, 1200),
               bounds='two existing full packs (10 and 9 bytes, target 5), one direct-to-pack write (object in [1,1000]) that leaves 2 as the cached pack id, init_container(clear=True) on the same handle with a new target in [1,1000], two more direct-to-pack writes (objects in [1,1000]): packs numbered from zero and filled in order again',
               samples=[dict(s0=5, s1=7, target2=6), dict(s0=5, s1=7, target2=30)])]
INIT = [cell('init_refused', 'harness.h_cfg', 'init_refused', (300, 900), bounds='init_container on an initialised container (symbolic arguments) raises and changes nothing; init on an empty folder gives an empty valid container',
             samples=[dict(s0=5, clear=False, target=100, prefix=2)])]

CHECKS = {
    'C01': dict(
        cells=PACK_VIEWS + DIRECT_VIEWS + LOOSE_VIEWS + PACK_REACH + DIRECT_REACH + CPACK_YES + CDIRECT + CFG + SINGLE + DIRECT_SHORT,
        functions=F_WRITE + F_READ + F_COMP,
        assumptions=['write paths covered: loose from bytes and from a stream (incl. a short first read), direct to pack '
                     '(batch, with duplicates, no_holes variants, compress=True), pack_all_loose (compress NO/YES); read back '
                     'whole, in bulk, by metadata and listing; configurations: hash type sha1/sha256 and loose_prefix_len 0..3 '
                     'in the cfg_* cells (the other cells: sha256, prefix 2); chunked read(n) of the returned streams: see C07',
                     A_COMP],
    ),
    'C02': dict(
        cells=PACK_VIEWS + PACK_VALIDATE + DIRECT_VIEWS + LOOSE_VIEWS + PACK_REACH + DELETE_CHUNKS + CREPACK + IMPORT_FORMS + INIT + DUPS,
        functions=F_WRITE + F_READ + ['Container.delete_objects', 'Container.repack', 'Container.repack_pack',
                                      'Container.import_objects', 'Container.init_container'],
        assumptions=['one inductive step per operation from a symbolic pre-state (a pack with holes and packed objects, '
                     'plain or compressed, loose objects); operations covered: add loose, add direct to pack, pack_all_loose, '
                     'clean_storage, delete_objects (request split into SQL IN-chunks), repack (all modes), repack_pack on '
                     'its own followed by a NEW handle, import_objects (source x destination forms), refused '
                     're-initialisation; loosen_object only through the seeking readers of C04/C12', A_COMP],
    ),
    'C03': dict(
        cells=PACK_INV + DIRECT_INV + LOOSE_INV + PACK_REACH + DIRECT_REACH + CPACK_YES + CREPACK + CDIRECT + DELETE_CHUNKS,
        functions=F_WRITE + F_COMP + ['Container.delete_objects'],
        assumptions=['invariant evaluated library-free on index rows and byte slices: every row inside an existing pack, no '
                     'overlap, no key twice, range = the content (uncompressed: length == size) or a complete compressed '
                     'stream inflating to it, recorded size = content length; loose file name = digest of its bytes', A_COMP],
    ),
    'C04': dict(
        cells=[
            cell('reader2', 'harness.h_rely', 'reader2', (300, 900), replay_mode='model',
                 bounds='2 objects, sizes in [1,70000]; pack-bytes/commit/unlink instants in [-5,40] relative to the '
                 "reader's own steps (anything later = never, from the reader's point of view); handle fresh or pinned; "
                 'view in {has_objects, get_objects_content, get_objects_meta, get_object_content}',
                 samples=[dict(s0=5, s1=7, tw1=-1, tp0=1, tc0=2, tu0=3, tp1=2, tc1=4, tu1=6, pre_q=True, mode=1)]),
            cell('reader2_reach', 'harness.h_rely', 'reader2_reach', (120, 300), expect='REFUTED'),
        ] + [
            cell('writer_dup_d%d' % dr, 'harness.h_sched', 'writer_dup_d%d' % dr, (400, 1200), replay_sweep={'tu': list(range(1, 61))},
                 bounds='loose writer adding known content (loose + packed) and new content; the cleaner unlinks the loose copy '
                 'at observation tu in [1,60] of the writer, another writer re-creates it %d observations later (0 = never); '
                 'sizes in [1,70000]' % dr,
                 samples=[dict(s0=66000, s1=5, tu=9), dict(s0=5, s1=7, tu=12)])
            for dr in (0, 1, 3)
        ] + [
            cell('seeker_p%d_d%d' % (prog, d2), 'harness.h_sched', 'seeker_p%d_d%d' % (prog, d2), (400, 1200),
                 replay_sweep={'t1': list(range(1, 81))},
                 bounds='reader seeking in a compressed packed object (program %d of {seek(0,2)+seek(0)+read, read(1)+seek(-1,1)+read, '
                 'seek(-1,2)+read}): the re-loosened cache copy is unlinked by the cleaner at observation t1 in [1,80] and again '
                 '%d observations later (0 = once)' % (prog, d2),
                 samples=[dict(s0=66000, z0=50, t1=7), dict(s0=5, z0=50, t1=20)])
            for prog in (0, 1, 2) for d2 in (0, 2)
        ] + [
            cell('gpacker_pack', 'harness.h_sched', 'gpacker_pack', (300, 900), samples=[dict(S_CRASH, clean=True), dict(S_CRASH, clean=False)],
                 bounds=B_CRASH_Q + '; packer guarantee: rows committed only over kernel-visible pack bytes, loose files unlinked only under such rows (pack_all_loose with/without per-pack cleaning, then clean_storage)'),
            cell('gpacker_nofsync', 'harness.h_sched', 'gpacker_nofsync', (300, 900), samples=[S_CRASH],
                 bounds=B_CRASH_Q + '; the same with do_fsync=False (visibility to readers must not depend on the sync)'),
            cell('gpacker_direct', 'harness.h_sched', 'gpacker_direct', (300, 900), samples=[dict(S_CRASH, nh=True), dict(S_CRASH, nh=False)],
                 bounds=B_CRASH_Q + '; the same for direct-to-pack writes'),
            cell('writer_reach', 'harness.h_sched', 'writer_reach', (120, 300), expect='REFUTED'),
            cell('seeker_reach', 'harness.h_sched', 'seeker_reach', (120, 300), expect='REFUTED'),
            cell('seeker2', 'harness.h_sched', 'seeker2', (400, 1200), replay_sweep={'t': list(range(1, 31))},
                 bounds='bulk reader of two LOOSE objects that another client packs compressed and cleans at observation t in [1,30] of the read (second-chance look-up); three seek/read programs incl. seeks from the end on each stream; descriptor census; skip_if_missing symbolic',
                 samples=[dict(s0=66000, z0=50, t=3, prog=2, skip=True), dict(s0=5, z0=50, t=1, prog=0, skip=False)]),
            cell('seeker2_reach', 'harness.h_sched', 'seeker2_reach', (120, 300), expect='REFUTED'),
        ],
        functions=F_READ + ['Container.add_streamed_object', 'utils.ObjectWriter.__enter__/__exit__', 'utils._compute_hash_for_file',
                            'utils.LazyLooseStream.open_stream', 'Container.loosen_object',
                            'utils.ZlibLikeBaseStreamDecompresser.seek/_seek_internal'],
        assumptions=['writer and seeking reader: the real code runs on the model file system; the effects of the other actors '
                     '(cleaner unlinks a loose file whose row is committed; another writer re-creates it) are scheduled events '
                     'fired when the observation clock of the actor under test (every path-level file-system call) reaches a '
                     'symbolic instant; counterexamples are replayed on the REAL file system with the same events fired by a '
                     'counting proxy around os/open/Path (instants swept, the two environments number calls differently)',
                     'rely/guarantee: the loose writers and the packer are symbolic instants t_w <= t_p < t_c < t_u per '
                     'object (the packer side of these orderings is what the gpacker_* cells establish on the real packer code: '
                     'commit only over kernel-visible bytes, unlink only under a committed row); the reader runs for real and every stat/'
                     'open/SQL observation compares its own step counter with those instants; one packer run (one unlink '
                     'per key); writers under the rely are not covered; counterexamples are replayed on the real code over '
                     'the model timeline only (no real-file-system schedule replay was built)'],
    ),
    'C05': dict(
        cells=crash_cells('kill', ALL_OPS),
        functions=F_WRITE + ['Container.delete_objects', 'Container.repack', 'Container.repack_pack', 'Container.import_objects'],
        assumptions=['kernel-visible image photographed at a symbolic I/O step (user-space buffers lost); operations: '
                     'pack_all_loose(+clean_storage) with/without clean_loose_per_pack, direct to pack with/without '
                     'no_holes, add loose, delete, repack (hole + 2 packed objects), import_objects from a second container '
                     '(one loose + one packed source object, in-memory cache branch), pack_all_loose / direct to pack with '
                     'do_fsync=False; oracle on the raw image (index rows + byte slices, pack -1 included) and, for the kill images, a '
                     'NEW handle mounted on the image: right bytes for every object stored before, right bytes or NotExistent for '
                     'objects being added, a loud failure allowed only after an interrupted repack'],
    ),
    'C06': dict(
        cells=crash_cells('power', ALL_OPS) + monitor_cells(ALL_OPS),
        functions=F_WRITE + ['Container.delete_objects'],
        assumptions=['durable image = every regular file cut to its last fsynced length; directory operations and index '
                     'commits durable (as the property states); default fsync settings; operations as C05 except the '
                     'do_fsync=False variants; ordering monitor: every committed row that is new or moved lies in the synced '
                     'prefix of its pack, a loose file is unlinked only under a committed durable row, a pack file is removed '
                     'or renamed away only when no committed row references it'],
    ),
    'C07': dict(
        cells=[
            cell('prog2', 'harness.h_reader', 'prog2', (200, 600), bounds=B_READER + '; programs of 2 operations',
                 samples=[dict(pack_size=50, offset=3, length=20, op1=4, a1=-5, op2=0, a2=-1),
                          dict(pack_size=50, offset=3, length=20, op1=4, a1=-25, op2=1, a2=0)]),
            cell('prog3', 'harness.h_reader', 'prog3', (420, 1500), bounds=B_READER + '; programs of 3 operations',
                 samples=[dict(pack_size=50, offset=3, length=20, op1=2, a1=5, op2=3, a2=-2, op3=0, a3=100)]),
            cell('cbprog2', 'harness.h_reader', 'cbprog2', (200, 600), bounds=B_READER + '; programs of 2 operations through CallbackStreamWrapper',
                 samples=[dict(pack_size=50, offset=3, length=20, op1=4, a1=-5, op2=0, a2=-1)]),
            cell('prog_reach', 'harness.h_reader', 'prog_reach', (120, 300), bounds=B_READER, expect='REFUTED'),
            cell('zread_small', 'harness.h_zread', 'zread_small', (540, 1500), bounds=B_ZREAD + '; 0 <= a <= 524288',
                 samples=[S_ZREAD], replay_mode='model'),
            cell('zread_big', 'harness.h_zread', 'zread_big', (540, 1500), bounds=B_ZREAD + '; 524288 < a <= 2100000',
                 samples=[dict(S_ZREAD, a=600000, tape=[0, 40, 100])], replay_mode='model'),
            cell('zread_reach', 'harness.h_zread', 'zread_reach', (200, 400), bounds=B_ZREAD, expect='REFUTED'),
            cell('zseek_zero', 'harness.h_zread', 'zseek_zero', (540, 1500), bounds=B_ZREAD + '; seek(0,0) then read(a), a <= 600000', replay_mode='model',
                 samples=[dict(n=100, total=40, before=1, pos=10, c=20, u=0, a=7, tape=[30, 10, 7])]),
            cell('zseek_back', 'harness.h_zread', 'zseek_back', (540, 1500), bounds='n <= 200000; symbolic stream state; seek(t,0) with -2 <= t < pos, stream invariant afterwards; tape <= 5', replay_mode='model',
                 samples=[dict(n=100, total=40, before=1, pos=10, c=20, u=0, t=5, tape=[30, 10, 5])]),
            cell('zseek_fwd', 'harness.h_zread', 'zseek_fwd', (540, 1500), bounds='n <= 200000; symbolic stream state; seek(t,0) with pos <= t <= n+10, stream invariant afterwards; tape <= 5', replay_mode='model',
                 samples=[dict(n=100, total=40, before=1, pos=10, c=20, u=0, t=50, tape=[30, 20, 40])]),
            cell('zseek_rel_back', 'harness.h_zread', 'zseek_rel_back', (540, 1500), bounds='n <= 200000; symbolic stream state; seek(t,1) with t < 0 and 0 < pos+t, stream invariant afterwards; tape <= 5', replay_mode='model',
                 samples=[dict(n=100, total=40, before=1, pos=10, c=20, u=0, t=-5, tape=[30, 10, 5])]),
            cell('zseek_rel_zero', 'harness.h_zread', 'zseek_rel_zero', (540, 1500), bounds=B_ZREAD + '; seek(t,1) with pos+t == 0 (rewind) then read(a), a <= 600000', replay_mode='model',
                 samples=[dict(n=100, total=40, before=1, pos=10, c=20, u=0, t=-10, a=7, tape=[30, 10, 7])]),
            cell('zseek_rel_neg', 'harness.h_zread', 'zseek_rel_neg', (300, 900), bounds=B_ZREAD + '; seek(t,1) with pos+t < 0: rejected, position unchanged', replay_mode='model',
                 samples=[dict(n=100, total=40, before=1, pos=10, c=20, u=0, t=-12, tape=[30])]),
            cell('zseek_rel_fwd', 'harness.h_zread', 'zseek_rel_fwd', (540, 1500), bounds='n <= 200000; symbolic stream state; seek(t,1) with t >= 0, stream invariant afterwards; tape <= 5', replay_mode='model',
                 samples=[dict(n=100, total=40, before=1, pos=10, c=20, u=0, t=40, tape=[30, 20, 40])]),
            cell('zseek_far', 'harness.h_zread', 'zseek_far', (540, 1500), bounds='n in [262000,600000]; initial stream state; seek(t,0) across the 256 KiB step of _seek_internal, stream invariant afterwards; tape <= 6', replay_mode='model',
                 samples=[dict(n=300000, total=40, t=280000, tape=[40, 262144, 0, 17856])]),
            cell('zseek_reach', 'harness.h_zread', 'zseek_reach', (300, 600), expect='REFUTED'),
        ],
        functions=['utils.PackedObjectReader.__init__/seek/tell/read/_update_pos',
                   'utils.ZlibLikeBaseStreamDecompresser.read/_read_compressed/tell/seek/_seek_internal'],
        assumptions=['packed uncompressed form: bounded programs on PackedObjectReader over a pack with neighbours (replayed on '
                     'a real file); packed compressed form: ONE read(a) step of the streaming decompresser from an arbitrary '
                     'symbolic stream state (bytes consumed/produced, internal buffer, unconsumed tail up to one chunk) under '
                     'a nondeterministic zlib contract (vf/vcodec.py: consumed/produced counts chosen by the solver within '
                     'what zlib documents, incl. zero input consumed when the output limit is hit); at most 2 decompress() '
                     'calls per step (oracle tape of 5 draws; longer paths are outside the bound); read(-1) is the loop over '
                     'read(_CHUNKSIZE) steps and is not explored separately (it did not exhaust); the loose cache / LazyLooseStream and the second-chance look-up are '
                     'covered by the seeker_* / seeker2 cells (scheduled unlinks, see C04); counterexamples of the zread cells are replayed on the real code '
                     'over the model codec only (the real-zlib reproduction of F7 is design_probes/real9.py)'],
    ),
    'C08': dict(
        cells=[
            cell('handles', 'harness.h_handles', 'handles', (300, 900), bounds=B_HANDLES,
                 samples=[dict(sp=5, s0=7, s1=9, q1=1, pack=True, clean=True, q2=3),
                          dict(sp=5, s0=7, s1=9, q1=2, pack=True, clean=False, q2=1)]),
            cell('handles_reach', 'harness.h_handles', 'handles_reach', (120, 300), bounds=B_HANDLES, expect='REFUTED'),
            cell('handles_clean', 'harness.h_handles', 'handles_clean', (400, 1200),
                 bounds='maintenance handle H has queried (q1); another handle deletes a packed object, stores it again loose and adds a new one; H runs clean_storage(vacuum symbolic) [and repack]; all handles and a new one answer every view; sizes in [1,70000]',
                 samples=[dict(sp=66000, s0=5, q1=0, vacuum=False, repack=False), dict(sp=5, s0=7, q1=3, vacuum=True, repack=True)]),
        ] + [
            cell('handles3%s_q%d' % (var, q), 'harness.h_handles', 'handles3%s_q%d' % (var, q), (500, 1500),
                 # which objects share a pack depends on the order in which the real key set is traversed: the replay also
                 # tries sizes that fill a pack on their own
                 replay_sweep={'sp': [11, 66000], 's0': [12, 66000]},
                 bounds='three handles: H queries (q1 in {has, get, meta, list, single get, none}), A adds, B may pack/clean, H answers view %d '
                 'of {has, bulk get, meta, list, single get}, A adds, B may pack (with/without per-pack cleaning)/clean, H itself adds, H answers '
                 'view %d again; sizes in [1,70000]%s' % (q, q, {'': '', '_small': '; pack_size_target = 10: every packed object in a pack of its own',
                 '_creator': '; H is the handle that created the container with init_container()',
                 '_creator_small': '; H created the container, pack_size_target = 10'}[var]),
                 samples=[dict(sp=66000, q1=3, maint1=True, maint2=True), dict(sp=5, q1=5, maint1=False, maint2=True)]
                 if 'creator' in var else
                 [dict(sp=66000, s0=5, q1=3, pack1=True, clean1=True, pack2=True, clean2=True),
                  dict(sp=5, s0=66000, q1=5, pack1=False, clean1=False, pack2=True, clean2=False)])
            for var in ('', '_small', '_creator', '_creator_small') for q in range(5)
        ],
        functions=F_READ + ['Container.add_streamed_object', 'Container.pack_all_loose', 'Container.clean_storage',
                            'Container._close_operation_session'],
        assumptions=['`handles`: two handles, history [query1 on H] add, [pack], [clean], add through the other handle, query2 on H; '
                     '`handles3`: three handles (reader H, loose writer A, packer B), three queries of H with adds/packs/cleans in '
                     'between and an add through H itself; SQLite WAL snapshot isolation modelled by pinned committed versions; '
                     'longer histories are not explored'],
    ),
    'C09': dict(
        cells=DIRECT_INV + LOOSE_INV + DIRECT_REACH + CDIRECT + IMPORT_DEDUP + SINGLE + PAGING,
        functions=F_WRITE + ['Container.import_objects', 'Container.add_streamed_object_to_pack'],
        assumptions=['duplicates of already packed content at any batch position, duplicate inside the batch (plain and '
                     'compress=True), known content re-added loose (existing copy loose/packed/both, possibly damaged, '
                     'up to 6 MiB), import of objects the destination already holds (same and different hash type, incl. '
                     'the streamed bypass for objects above target_memory_bytes)'],
    ),
    'C10': dict(
        cells=CPACK + CREPACK + CREPACK2 + CDIRECT + COMP_REACH + SHOULD,
        functions=F_COMP + F_WRITE + F_READ,
        assumptions=[A_COMP, 'mode honoured: YES/True => stored compressed, NO/False => not, KEEP => as before (loose objects: '
                     'not compressed), AUTO => either; recorded size = content length, recorded length = bytes occupied (every '
                     'pack is exactly its holes plus the recorded lengths), get_total_size = sums, get_objects_meta = the rows; '
                     'read-back unchanged through every view; chained repacks only in the thorough tier (16 mode pairs); AUTO '
                     'cells bounded to objects <= 2500 bytes (3 sampling iterations)'],
    ),
    'C11': dict(
        cells=DELETE_REPACK + DELETE_VIEWS + DELETE_REACH + DELETE_CHUNKS + DUPS,
        functions=['Container.delete_objects', 'Container.repack', 'Container.repack_pack', 'utils.should_compress (KEEP)']
        + F_READ,
        assumptions=['repack with the default CompressMode.KEEP; compressed and plain packed objects; the request split into '
                     'SQL IN-chunks of 1..3 keys (symbolic _IN_SQL_MAX_LENGTH); repack_pack on its own + new handle; stray '
                     'duplicates/ files of loose and packed objects (delete_objects, clean_storage)'],
    ),
    'C12': dict(
        cells=PACK_VALIDATE + DELETE_REPACK + DAMAGE + CPACK_YES + CREPACK,
        functions=['Container.validate', 'Container._validate_hashkeys_pack'] + F_WRITE,
        assumptions=['no false positives: validate() clean after pack_all_loose/clean_storage and after delete+repack from '
                     'the symbolic pre-states; no false negatives: ONE damage (loose file replaced by junk of symbolic length; '
                     'offset / length / size of a row perturbed by a symbolic delta; pack truncated at a symbolic position; a '
                     'symbolic sub-range of the pack flipped) and the relational oracle "some object unreadable / different '
                     'bytes / size mismatch => validate() not clean or raises"; readers in the antecedent: whole read, '
                     'metadata, and a stream that seeks from the end first (served from the re-loosened cache for compressed '
                     'objects); compressed objects under the deterministic model zlib (any foreign byte in a stream is a '
                     'codec error), `compressed` flag flips, pack_id perturbations, doubly stored (loose + packed) objects'],
    ),
    'C13': dict(
        cells=PACK_INV + DIRECT_INV + PACK_REACH + DIRECT_REACH + CPACK + CDIRECT + IMPORT_TARGET + PACKID + REINIT,
        functions=F_WRITE + F_COMP + ['Container.import_objects'],
        assumptions=['pre-state: one pack (possibly already above the target) with holes; symbolic pack_size_target so '
                     'that the pack switch falls anywhere in the batch; pack_all_loose with every compress mode, direct to '
                     'pack plain and compressed, import into a destination with a symbolic pack target'],
    ),
    'C14': dict(
        cells=IMPORT,
        functions=['Container.import_objects', 'Container.add_objects_to_pack', 'Container.add_streamed_object_to_pack',
                   'Container.add_streamed_objects_to_pack', 'Container._write_data_to_packfile',
                   'Container.get_objects_stream_and_meta', 'utils.detect_where_sorted', 'utils.merge_sorted',
                   'utils.yield_first_element', 'utils.compute_hash_and_size', 'utils.rename_callback'] + F_READ,
        assumptions=['two model containers in one model environment (own index each), hash types {sha1, sha256}^2 with one '
                     'injective key table per algorithm; cell families: iterable kind x callback x hash pair (small loose '
                     'objects), the three cache branches (symbolic target_memory_bytes, sizes), source x destination forms '
                     '(incl. compressed source objects and compress=True), destination pack switching; the families are '
                     'not crossed with each other'],
    ),
    'C15': dict(
        cells=[
            cell('backup_sched_%s_%s_a%d_d%d' % (wl, cl, ta, td), 'harness.h_backup', 'backup_sched_%s_%s_a%d_d%d' % (wl, cl, ta, td), (500, 1500),
                 bounds='live container: 2 loose + 1 packed object; another client adds a loose object (instant %d), packs all '
                 '(tp, clean_loose_per_pack=%s), cleans (tc >= tp), writes directly to a pack (instant %d), each a whole operation at an '
                 'instant in [5,11] of the backup clock (before each of: loose copy, index dump, dump transfer, packs copy, copy '
                 'of the rest, rename; 11 = after); %s; s0 in [1,70000]' % (ta, cl == 'clean', td, 'a further client keeps an index '
                 'connection open all the time' if wl == 'wal' else 'no other connection besides the acting client'),
                 samples=[dict(s0=66000, tp=6, tc=7), dict(s0=5, tp=5, tc=5), dict(s0=5, tp=8, tc=9)])
            for wl in ('nowal', 'wal') for cl in ('keep', 'clean') for ta in (5, 8) for td in (5, 9, 11)
        ] + [
            cell('backup_small_%s_%s_d%d' % (wl, cl, td), 'harness.h_backup', 'backup_small_%s_%s_d%d' % (wl, cl, td), (500, 1500),
                 bounds='as backup_sched_* with pack_size_target = 10 (every packed object opens a new pack file during the backup); pack (clean_loose_per_pack=%s) and clean instants symbolic in [5,11], direct-to-pack at instant %d; %s' % (cl == 'clean', td, 'further open connection' if wl == 'wal' else 'no further connection'),
                 samples=[dict(s0=66000, tp=6, tc=7), dict(s0=5, tp=5, tc=5)])
            for wl in ('nowal', 'wal') for cl in ('keep', 'clean') for td in (9, 11)
        ] + [
            cell('backup_again', 'harness.h_backup', 'backup_again', (900, 1800), thorough_only=True,
                 bounds='two successive backups (the second incremental on the first), events during the first',
                 samples=[dict(s0=66000, wal=False, tp=6, tc=7, cl=False)]),
        ] + [
            cell('backup_incr_%s_%s_%s' % (wl, cl, sm), 'harness.h_backup', 'backup_incr_%s_%s_%s' % (wl, cl, sm), (500, 1500),
                 bounds='two successive backups, the second incremental (--link-dest; quick check on size + modification time to the second, '
                 'or content with --checksum); pack (clean_loose_per_pack=%s) and clean at instants tp <= tc in [10,17] (between the backups / '
                 'early in the second); %s; %s' % (cl == 'clean', 'a further client keeps an index connection open' if wl == 'wal' else
                 'no further connection', 'both backups in the same wall-clock second' if sm == 'same' else 'second backup in a later second'),
                 samples=[dict(s0=66000, tp=12, tc=12), dict(s0=5, tp=10, tc=16)])
            for wl in ('wal', 'nowal') for cl in ('keep', 'clean') for sm in ('later', 'same')
        ] + [
            cell('backup_reach', 'harness.h_backup', 'backup_reach', (300, 600), expect='REFUTED'),
        ],
        functions=['backup_utils.backup_container', 'backup_utils.BackupManager.__init__/call_rsync/run_cmd/backup_auto_folders/'
                   'get_existing_backup_folders/get_last_backup_folder/delete_old_backups', 'backup_utils._sqlite_backup',
                   'Container.pack_all_loose', 'Container.clean_storage', 'Container.add_streamed_object',
                   'Container.add_streamed_objects_to_pack', 'Container.validate'] + F_READ,
        assumptions=['the real backup code runs on a model shell (vf/mshell.py): rsync with the options the code emits '
                     '(--exclude NAME unanchored name match, trailing-slash semantics, no --delete, --link-dest content-neutral), '
                     'mkdir/find/mv/ln/rm, sqlite3 online backup = consistent copy of the latest committed version, WAL mode '
                     'index = main file (last checkpoint) + -wal (commits since, present while a connection is open, replayed by '
                     'SQLite when found next to a database file) + -shm; the concurrent clients act at PHASE granularity (whole '
                     'real operations before/between the copy phases), not inside one rsync transfer and not half-way through '
                     'one of their own operations; local destination only (no ssh remote); counterexamples are replayed with the '
                     'real rsync and real SQLite, the same events fired at the same subprocess/sqlite call numbers'],
    ),
    'C16': dict(
        cells=[
            cell('where_spec', 'harness.h_merge', 'where_spec', (300, 900), bounds='two sorted unique int lists, len <= 4',
                 samples=[dict(left=[1, 3, 5], right=[0, 3, 9])], replay_mode='model'),
            cell('where_key_spec', 'harness.h_merge', 'where_key_spec', (200, 600), bounds='lists len <= 3, left_key',
                 samples=[dict(left=[1, 3], right=[3, 4], tag=7)], replay_mode='model'),
            cell('rejects_31', 'harness.h_merge', 'rejects_31', (300, 900), bounds='left up to 3 ints, right up to 1, values in [0,3] (the ValueError message formats the offending value: unbounded ints fork on their decimal digits)',
                 samples=[dict(a=2, b=1, c=3, d=0, nl=3, nr=1)], replay_mode='model'),
            cell('rejects_13', 'harness.h_merge', 'rejects_13', (300, 900), bounds='left up to 1 int, right up to 3, values in [0,3]',
                 samples=[dict(a=2, b=2, c=3, d=0, nl=1, nr=3)], replay_mode='model'),
            cell('rejects_22', 'harness.h_merge', 'rejects_22', (300, 900), bounds='left up to 2 ints, right up to 2, values in [0,3]',
                 samples=[dict(a=2, b=1, c=3, d=0, nl=2, nr=2)], replay_mode='model'),
            cell('merge_spec', 'harness.h_merge', 'merge_spec', (300, 900), bounds='two sorted unique int lists, len <= 4',
                 samples=[dict(left=[1, 3, 5], right=[0, 3, 9])], replay_mode='model'),
            cell('chunk_spec', 'harness.h_merge', 'chunk_spec', (100, 300), bounds='list len <= 6, size in [1,4]',
                 samples=[dict(xs=[1, 2, 3, 4, 5], size=2)], replay_mode='model'),
            cell('where_reach', 'harness.h_merge', 'where_reach', (100, 300), bounds='as where_spec', expect='REFUTED'),
            cell('where_spec4', 'harness.h_merge', 'where_spec4', (900, 1800), bounds='lists len <= 4', thorough_only=True,
                 samples=[dict(left=[1, 3, 5, 7], right=[0, 3, 9, 11])], replay_mode='model'),
            cell('merge_spec4', 'harness.h_merge', 'merge_spec4', (900, 1800), bounds='lists len <= 4', thorough_only=True,
                 samples=[dict(left=[1, 3, 5, 7], right=[0, 3, 9, 11])], replay_mode='model'),
        ] + [
            cell('bulk_check_v%d%s' % (v, sfx), 'harness.g_bulk', 'bulk_check_v%d%s' % (v, sfx), (400, 1500),
                 thorough_only=bool(sfx),
                 bounds='obj0 loose, obj1 loose+packed, obj2 packed, one absent key; request of 0..%d picks (any order, '
                 'repeats); _IN_SQL_MAX_LENGTH in [1,2]; _MAX_CHUNK_ITERATE_LENGTH in [0,%d]; view %d of {has_objects, '
                 'get_objects_content, get_objects_meta skip, get_objects_meta no-skip}' % (3 if sfx else 2, 3 if sfx else 2, v),
                 samples=[dict(s0=5, s1=7, s2=9, r0=3, r1=1, r2=1, nreq=2, in_max=1, chunk_max=1),
                          dict(s0=5, s1=7, s2=9, r0=0, r1=2, r2=3, nreq=2, in_max=2, chunk_max=2)])
            for v in range(4) for sfx in ('', '_3')
        ] + [cell('bulk_reach_v1', 'harness.g_bulk', 'bulk_reach_v1', (120, 300), expect='REFUTED')] + BULK_PACK + PAGING
        + [c for c in IMPORT if c['name'].startswith(('imp_kind_s256_s256_', 'imp_kind_s256_s1_list', 'imp_kind_s256_s1_set'))],
        functions=['utils.detect_where_sorted', 'utils.merge_sorted', 'utils.chunk_iterator',
                   'Container._get_objects_stream_meta_generator (both lookup strategies)', 'Container.has_objects',
                   'Container.get_objects_content', 'Container.get_objects_meta'],
        assumptions=['helper clause: pure functions, model and real world coincide (replay = the same call); bulk clause: the '
                     'two strategy thresholds are symbolic small integers set on the container instance (views, pack_all_loose, '
                     'clean_storage); bulk import: request order, repeats, absent keys and iterable kind (imp_kind_* cells); '
                     'the 1000-row paging literal is replaced by a symbolic page size of 1..3 through a checked source rewrite (cell paging)'],
    ),
    'C17': dict(
        cells=crash_cells('fault', ALL_OPS) + [
            cell('perm_pack', 'harness.h_sched', 'perm_pack', (400, 1200), samples=[dict(S_CRASH, at=1, clean=True), dict(S_CRASH, at=2, clean=False)],
                 bounds=B_CRASH_Q + '; the at-th (1..8) opening of a file for reading fails with PermissionError (the error pack_all_loose handles by skipping the object); with/without clean_loose_per_pack'),
            cell('perm_other', 'harness.h_sched', 'perm_other', (400, 1200), samples=[dict(S_CRASH, at=1, which=0), dict(S_CRASH, at=1, which=2)],
                 bounds=B_CRASH_Q + '; the same read-open PermissionError during add loose / repack / import'),
        ],
        functions=F_WRITE + ['Container.delete_objects'],
        assumptions=['single fault: the I/O-relevant call number `at` raises OSError before taking effect (SQL statements '
                     'and commits included; reported as OSError, which the code under test does not catch either); then '
                     'the handle is closed, stale lock files removed and the operation rerun on a new handle (no rerun is '
                     'demanded after an interrupted repack); operations as C05'],
    ),
    'C18': dict(
        cells=PACK_INV + PACK_VIEWS + DIRECT_INV + DIRECT_VIEWS + LOOSE_INV + LOOSE_VIEWS + ZREAD,
        functions=F_WRITE + F_READ + ['Container.close', 'Container._close_operation_session',
                                      'utils.ZlibLikeBaseStreamDecompresser._read_compressed'],
        assumptions=['descriptor census of the model descriptor table (files, directory descriptors, fcntl duplicates): '
                     'no growth over an operation, zero after close(); at most one pack-or-loose file open at any time during the bulk '
                     'and single reads of the views cells (model descriptor table high-water mark); index connections are '
                     'descriptors too (opened at the first statement of a session, released only by engine.dispose()); chunking '
                     'clause: what the streaming decompresser keeps buffered after read(a) is bounded by the request (zread_* '
                     'cells, nondeterministic zlib contract); process RSS is not decided by this technique'],
    ),
}

# streams handed out by the second-chance look-up / the re-loosened cache must be closed again (descriptor census, C18)
CHECKS['C18']['cells'] = CHECKS['C18']['cells'] + [c for c in CHECKS['C04']['cells'] if c['name'].startswith(('seeker_p', 'seeker2'))]
# sizes, lengths and bytes reported by the bulk calls under both look-up strategies are part of the round trip (C01)
CHECKS['C01']['cells'] = CHECKS['C01']['cells'] + [c for c in CHECKS['C16']['cells'] if c['name'].startswith('bulk_check_v') and not c.get('thorough_only')]
CHECKS['C02']['cells'] = CHECKS['C02']['cells'] + DIRECT_SHORT
# maintenance through one handle after changes through another one is a history of public operations too (C02)
CHECKS['C02']['cells'] = CHECKS['C02']['cells'] + [c for c in CHECKS['C08']['cells'] if c['name'] == 'handles_clean']
# index and packs stay mutually consistent at every intermediate instant of the operations that append to packs or rewrite them (C03)
CHECKS['C03']['cells'] = CHECKS['C03']['cells'] + [c for c in CHECKS['C05']['cells'] if c['name'].startswith(('q_kill_direct_nofsync', 'q_kill_pack_nofsync', 'q_kill_repack', 'q_kill_import')) and not c.get('thorough_only')]
# the streams of objects served through the re-loosened cache / the second-chance look-up are storage forms of C07 too
CHECKS['C07']['cells'] = CHECKS['C07']['cells'] + [c for c in CHECKS['C04']['cells'] if c['name'].startswith(('seeker_p', 'seeker2'))]
# seeking / chunked readers of compressed objects are part of "what is read back" (C10)
CHECKS['C10']['cells'] = CHECKS['C10']['cells'] + [c for c in CHECKS['C07']['cells'] if c['name'] in ('zseek_zero', 'zseek_back', 'zread_small')]
# size / stored length / compressed flag reported by the bulk metadata and content calls under both look-up strategies
CHECKS['C10']['cells'] = CHECKS['C10']['cells'] + [c for c in CHECKS['C16']['cells'] if c['name'] in ('bulk_check_v1', 'bulk_check_v2', 'bulk_check_v3')]
