"""Verification framework: symbolic execution (CrossHair/z3) of the real disk_objectstore code on a model environment."""
