"""backup_container / BackupManager.backup_auto_folders while other clients keep using the container (C15).

The real backup code runs on the model shell (vf/mshell.py); the other clients' steps (add loose, pack_all_loose with or
without per-pack cleaning, clean_storage, direct-to-pack) are whole operations of the REAL container code executed
through a second handle at symbolic instants of the backup clock (every subprocess.run call and every connection to the
live index: before/between all copy phases)."""
from harness.common import *  # noqa

ABSENT = 'b' * 64


def _backup(what, s0, s1, s2, s3, s4, wal, ta, tp, tc, td, cl, again, same=False, target=10**9):
    """live container: obj0, obj2 loose, obj1 packed.  Another client adds obj3 loose (at ta), packs everything (tp,
    clean_loose_per_pack=cl), cleans (tc), writes obj4 directly to a pack (td).  ``wal``: a further client keeps a
    connection to the index open for the whole time.  ``again``: a second, incremental backup follows (no events)."""
    w = make_world(target, config_file=True)
    try:
        w.set_pack(0, [('junk', 0, 1), ('obj', 1, s1)])
        w.put_loose(0, s0)
        w.put_loose(2, s2)
        w.install_backup()
        B = w.B
        w.set_wal_live(wal)
        other = w.new_handle()
        w.bat(ta, lambda: other.add_streamed_object(w.stream(3, s3)))
        w.bat(tp, lambda: other.pack_all_loose(clean_loose_per_pack=cl))
        w.bat(tc, lambda: other.clean_storage())
        w.bat(td, lambda: other.add_streamed_objects_to_pack([w.stream(4, s4)]))
        dest = w.backup_dest()
        runs = 2 if again else 1
        ordered = []  # backup folders in the order they were made (their names sort by second + random suffix only)
        try:
            for nrun in range(runs):
                if nrun == 0:
                    w.first_backup(same)
                else:
                    w.next_backup(same)  # ``same``: both backups fall into the same wall-clock second
                manager = B.BackupManager(str(dest), keep=None)
                manager.backup_auto_folders(lambda path, prev: B.backup_container(manager, w.c, path, prev))
                ordered += [f for f in w.backup_folders(str(dest)) if f not in ordered]
        except B.BackupError:
            return True  # the backup did not complete successfully: nothing is claimed about it
        finally:
            other.close()
        folders = ordered
        if what == 'reach':
            return not (len(folders) == 1 and tp <= w.bclock and tc <= w.bclock and tp >= 7)
        if len(folders) != runs:
            return False
        start = objs_map(w, [(0, s0), (1, s1), (2, s2)])
        later = objs_map(w, [(3, s3), (4, s4)])
        for nf, folder in enumerate(folders):
            img = w.backup_image(folder)
            # every object that existed when the backup started is recoverable; every key the backup exposes is right
            if not inv_ok(img, w, start, exact=False) or not visible_complete(img, w, later):
                return False
            if nf == 1 and ta <= 11 and td <= 11:
                # the second (incremental) backup started after obj3 and obj4 had been acknowledged
                if not inv_ok(img, w, later, exact=False):
                    return False
            allowed = dict(start)
            allowed.update(later)
            for r in img.rows():
                if r['hashkey'] not in allowed:
                    return False
            for k in img.loose_keys():
                if k not in allowed:
                    return False
            # ... and through the library: a handle on the backup reads everything and validates clean
            bc = w.new_handle(folder)
            try:
                keys = list(start)
                if bc.has_objects(keys) != [True] * len(keys):
                    return False
                for k in keys:
                    if not (bc.get_object_content(k) == w.content(*start[k])):
                        return False
                if not bc.validate().is_valid():
                    return False
            finally:
                bc.close()
        return True
    finally:
        w.cleanup()



def backup_sched_nowal_keep_a5_d5(s0: int, tp: int, tc: int) -> bool:
    """
    Instants on the backup clock: 5 = before the loose copy, 6 = index dump, 7 = dump transfer, 8 = packs copy,
    9 = copy of the rest, 10 = rename of live-backup, 11 = after the backup.
    pre: 1 <= s0 <= 70000 and 5 <= tp <= 11 and tp <= tc <= 11
    post: _
    """
    return _backup('check', s0, 7, 5, 3, 9, False, 5, tp, tc, 5, False, False)


def backup_sched_nowal_keep_a5_d9(s0: int, tp: int, tc: int) -> bool:
    """
    Instants on the backup clock: 5 = before the loose copy, 6 = index dump, 7 = dump transfer, 8 = packs copy,
    9 = copy of the rest, 10 = rename of live-backup, 11 = after the backup.
    pre: 1 <= s0 <= 70000 and 5 <= tp <= 11 and tp <= tc <= 11
    post: _
    """
    return _backup('check', s0, 7, 5, 3, 9, False, 5, tp, tc, 9, False, False)


def backup_sched_nowal_keep_a5_d11(s0: int, tp: int, tc: int) -> bool:
    """
    Instants on the backup clock: 5 = before the loose copy, 6 = index dump, 7 = dump transfer, 8 = packs copy,
    9 = copy of the rest, 10 = rename of live-backup, 11 = after the backup.
    pre: 1 <= s0 <= 70000 and 5 <= tp <= 11 and tp <= tc <= 11
    post: _
    """
    return _backup('check', s0, 7, 5, 3, 9, False, 5, tp, tc, 11, False, False)


def backup_sched_nowal_keep_a8_d5(s0: int, tp: int, tc: int) -> bool:
    """
    Instants on the backup clock: 5 = before the loose copy, 6 = index dump, 7 = dump transfer, 8 = packs copy,
    9 = copy of the rest, 10 = rename of live-backup, 11 = after the backup.
    pre: 1 <= s0 <= 70000 and 5 <= tp <= 11 and tp <= tc <= 11
    post: _
    """
    return _backup('check', s0, 7, 5, 3, 9, False, 8, tp, tc, 5, False, False)


def backup_sched_nowal_keep_a8_d9(s0: int, tp: int, tc: int) -> bool:
    """
    Instants on the backup clock: 5 = before the loose copy, 6 = index dump, 7 = dump transfer, 8 = packs copy,
    9 = copy of the rest, 10 = rename of live-backup, 11 = after the backup.
    pre: 1 <= s0 <= 70000 and 5 <= tp <= 11 and tp <= tc <= 11
    post: _
    """
    return _backup('check', s0, 7, 5, 3, 9, False, 8, tp, tc, 9, False, False)


def backup_sched_nowal_keep_a8_d11(s0: int, tp: int, tc: int) -> bool:
    """
    Instants on the backup clock: 5 = before the loose copy, 6 = index dump, 7 = dump transfer, 8 = packs copy,
    9 = copy of the rest, 10 = rename of live-backup, 11 = after the backup.
    pre: 1 <= s0 <= 70000 and 5 <= tp <= 11 and tp <= tc <= 11
    post: _
    """
    return _backup('check', s0, 7, 5, 3, 9, False, 8, tp, tc, 11, False, False)


def backup_sched_nowal_clean_a5_d5(s0: int, tp: int, tc: int) -> bool:
    """
    Instants on the backup clock: 5 = before the loose copy, 6 = index dump, 7 = dump transfer, 8 = packs copy,
    9 = copy of the rest, 10 = rename of live-backup, 11 = after the backup.
    pre: 1 <= s0 <= 70000 and 5 <= tp <= 11 and tp <= tc <= 11
    post: _
    """
    return _backup('check', s0, 7, 5, 3, 9, False, 5, tp, tc, 5, True, False)


def backup_sched_nowal_clean_a5_d9(s0: int, tp: int, tc: int) -> bool:
    """
    Instants on the backup clock: 5 = before the loose copy, 6 = index dump, 7 = dump transfer, 8 = packs copy,
    9 = copy of the rest, 10 = rename of live-backup, 11 = after the backup.
    pre: 1 <= s0 <= 70000 and 5 <= tp <= 11 and tp <= tc <= 11
    post: _
    """
    return _backup('check', s0, 7, 5, 3, 9, False, 5, tp, tc, 9, True, False)


def backup_sched_nowal_clean_a5_d11(s0: int, tp: int, tc: int) -> bool:
    """
    Instants on the backup clock: 5 = before the loose copy, 6 = index dump, 7 = dump transfer, 8 = packs copy,
    9 = copy of the rest, 10 = rename of live-backup, 11 = after the backup.
    pre: 1 <= s0 <= 70000 and 5 <= tp <= 11 and tp <= tc <= 11
    post: _
    """
    return _backup('check', s0, 7, 5, 3, 9, False, 5, tp, tc, 11, True, False)


def backup_sched_nowal_clean_a8_d5(s0: int, tp: int, tc: int) -> bool:
    """
    Instants on the backup clock: 5 = before the loose copy, 6 = index dump, 7 = dump transfer, 8 = packs copy,
    9 = copy of the rest, 10 = rename of live-backup, 11 = after the backup.
    pre: 1 <= s0 <= 70000 and 5 <= tp <= 11 and tp <= tc <= 11
    post: _
    """
    return _backup('check', s0, 7, 5, 3, 9, False, 8, tp, tc, 5, True, False)


def backup_sched_nowal_clean_a8_d9(s0: int, tp: int, tc: int) -> bool:
    """
    Instants on the backup clock: 5 = before the loose copy, 6 = index dump, 7 = dump transfer, 8 = packs copy,
    9 = copy of the rest, 10 = rename of live-backup, 11 = after the backup.
    pre: 1 <= s0 <= 70000 and 5 <= tp <= 11 and tp <= tc <= 11
    post: _
    """
    return _backup('check', s0, 7, 5, 3, 9, False, 8, tp, tc, 9, True, False)


def backup_sched_nowal_clean_a8_d11(s0: int, tp: int, tc: int) -> bool:
    """
    Instants on the backup clock: 5 = before the loose copy, 6 = index dump, 7 = dump transfer, 8 = packs copy,
    9 = copy of the rest, 10 = rename of live-backup, 11 = after the backup.
    pre: 1 <= s0 <= 70000 and 5 <= tp <= 11 and tp <= tc <= 11
    post: _
    """
    return _backup('check', s0, 7, 5, 3, 9, False, 8, tp, tc, 11, True, False)


def backup_sched_wal_keep_a5_d5(s0: int, tp: int, tc: int) -> bool:
    """
    Instants on the backup clock: 5 = before the loose copy, 6 = index dump, 7 = dump transfer, 8 = packs copy,
    9 = copy of the rest, 10 = rename of live-backup, 11 = after the backup.
    pre: 1 <= s0 <= 70000 and 5 <= tp <= 11 and tp <= tc <= 11
    post: _
    """
    return _backup('check', s0, 7, 5, 3, 9, True, 5, tp, tc, 5, False, False)


def backup_sched_wal_keep_a5_d9(s0: int, tp: int, tc: int) -> bool:
    """
    Instants on the backup clock: 5 = before the loose copy, 6 = index dump, 7 = dump transfer, 8 = packs copy,
    9 = copy of the rest, 10 = rename of live-backup, 11 = after the backup.
    pre: 1 <= s0 <= 70000 and 5 <= tp <= 11 and tp <= tc <= 11
    post: _
    """
    return _backup('check', s0, 7, 5, 3, 9, True, 5, tp, tc, 9, False, False)


def backup_sched_wal_keep_a5_d11(s0: int, tp: int, tc: int) -> bool:
    """
    Instants on the backup clock: 5 = before the loose copy, 6 = index dump, 7 = dump transfer, 8 = packs copy,
    9 = copy of the rest, 10 = rename of live-backup, 11 = after the backup.
    pre: 1 <= s0 <= 70000 and 5 <= tp <= 11 and tp <= tc <= 11
    post: _
    """
    return _backup('check', s0, 7, 5, 3, 9, True, 5, tp, tc, 11, False, False)


def backup_sched_wal_keep_a8_d5(s0: int, tp: int, tc: int) -> bool:
    """
    Instants on the backup clock: 5 = before the loose copy, 6 = index dump, 7 = dump transfer, 8 = packs copy,
    9 = copy of the rest, 10 = rename of live-backup, 11 = after the backup.
    pre: 1 <= s0 <= 70000 and 5 <= tp <= 11 and tp <= tc <= 11
    post: _
    """
    return _backup('check', s0, 7, 5, 3, 9, True, 8, tp, tc, 5, False, False)


def backup_sched_wal_keep_a8_d9(s0: int, tp: int, tc: int) -> bool:
    """
    Instants on the backup clock: 5 = before the loose copy, 6 = index dump, 7 = dump transfer, 8 = packs copy,
    9 = copy of the rest, 10 = rename of live-backup, 11 = after the backup.
    pre: 1 <= s0 <= 70000 and 5 <= tp <= 11 and tp <= tc <= 11
    post: _
    """
    return _backup('check', s0, 7, 5, 3, 9, True, 8, tp, tc, 9, False, False)


def backup_sched_wal_keep_a8_d11(s0: int, tp: int, tc: int) -> bool:
    """
    Instants on the backup clock: 5 = before the loose copy, 6 = index dump, 7 = dump transfer, 8 = packs copy,
    9 = copy of the rest, 10 = rename of live-backup, 11 = after the backup.
    pre: 1 <= s0 <= 70000 and 5 <= tp <= 11 and tp <= tc <= 11
    post: _
    """
    return _backup('check', s0, 7, 5, 3, 9, True, 8, tp, tc, 11, False, False)


def backup_sched_wal_clean_a5_d5(s0: int, tp: int, tc: int) -> bool:
    """
    Instants on the backup clock: 5 = before the loose copy, 6 = index dump, 7 = dump transfer, 8 = packs copy,
    9 = copy of the rest, 10 = rename of live-backup, 11 = after the backup.
    pre: 1 <= s0 <= 70000 and 5 <= tp <= 11 and tp <= tc <= 11
    post: _
    """
    return _backup('check', s0, 7, 5, 3, 9, True, 5, tp, tc, 5, True, False)


def backup_sched_wal_clean_a5_d9(s0: int, tp: int, tc: int) -> bool:
    """
    Instants on the backup clock: 5 = before the loose copy, 6 = index dump, 7 = dump transfer, 8 = packs copy,
    9 = copy of the rest, 10 = rename of live-backup, 11 = after the backup.
    pre: 1 <= s0 <= 70000 and 5 <= tp <= 11 and tp <= tc <= 11
    post: _
    """
    return _backup('check', s0, 7, 5, 3, 9, True, 5, tp, tc, 9, True, False)


def backup_sched_wal_clean_a5_d11(s0: int, tp: int, tc: int) -> bool:
    """
    Instants on the backup clock: 5 = before the loose copy, 6 = index dump, 7 = dump transfer, 8 = packs copy,
    9 = copy of the rest, 10 = rename of live-backup, 11 = after the backup.
    pre: 1 <= s0 <= 70000 and 5 <= tp <= 11 and tp <= tc <= 11
    post: _
    """
    return _backup('check', s0, 7, 5, 3, 9, True, 5, tp, tc, 11, True, False)


def backup_sched_wal_clean_a8_d5(s0: int, tp: int, tc: int) -> bool:
    """
    Instants on the backup clock: 5 = before the loose copy, 6 = index dump, 7 = dump transfer, 8 = packs copy,
    9 = copy of the rest, 10 = rename of live-backup, 11 = after the backup.
    pre: 1 <= s0 <= 70000 and 5 <= tp <= 11 and tp <= tc <= 11
    post: _
    """
    return _backup('check', s0, 7, 5, 3, 9, True, 8, tp, tc, 5, True, False)


def backup_sched_wal_clean_a8_d9(s0: int, tp: int, tc: int) -> bool:
    """
    Instants on the backup clock: 5 = before the loose copy, 6 = index dump, 7 = dump transfer, 8 = packs copy,
    9 = copy of the rest, 10 = rename of live-backup, 11 = after the backup.
    pre: 1 <= s0 <= 70000 and 5 <= tp <= 11 and tp <= tc <= 11
    post: _
    """
    return _backup('check', s0, 7, 5, 3, 9, True, 8, tp, tc, 9, True, False)


def backup_sched_wal_clean_a8_d11(s0: int, tp: int, tc: int) -> bool:
    """
    Instants on the backup clock: 5 = before the loose copy, 6 = index dump, 7 = dump transfer, 8 = packs copy,
    9 = copy of the rest, 10 = rename of live-backup, 11 = after the backup.
    pre: 1 <= s0 <= 70000 and 5 <= tp <= 11 and tp <= tc <= 11
    post: _
    """
    return _backup('check', s0, 7, 5, 3, 9, True, 8, tp, tc, 11, True, False)


def backup_small_wal_keep_d9(s0: int, tp: int, tc: int) -> bool:
    """
    As backup_sched_*, with pack_size_target = 10: every object the concurrent client packs opens a NEW pack file (pack
    files that did not exist when the backup started).
    pre: 1 <= s0 <= 70000 and 5 <= tp <= 11 and tp <= tc <= 11
    post: _
    """
    return _backup('check', s0, 7, 5, 3, 9, True, 5, tp, tc, 9, False, False, False, 10)


def backup_small_wal_keep_d11(s0: int, tp: int, tc: int) -> bool:
    """
    As backup_sched_*, with pack_size_target = 10: every object the concurrent client packs opens a NEW pack file (pack
    files that did not exist when the backup started).
    pre: 1 <= s0 <= 70000 and 5 <= tp <= 11 and tp <= tc <= 11
    post: _
    """
    return _backup('check', s0, 7, 5, 3, 9, True, 5, tp, tc, 11, False, False, False, 10)


def backup_small_wal_clean_d9(s0: int, tp: int, tc: int) -> bool:
    """
    As backup_sched_*, with pack_size_target = 10: every object the concurrent client packs opens a NEW pack file (pack
    files that did not exist when the backup started).
    pre: 1 <= s0 <= 70000 and 5 <= tp <= 11 and tp <= tc <= 11
    post: _
    """
    return _backup('check', s0, 7, 5, 3, 9, True, 5, tp, tc, 9, True, False, False, 10)


def backup_small_wal_clean_d11(s0: int, tp: int, tc: int) -> bool:
    """
    As backup_sched_*, with pack_size_target = 10: every object the concurrent client packs opens a NEW pack file (pack
    files that did not exist when the backup started).
    pre: 1 <= s0 <= 70000 and 5 <= tp <= 11 and tp <= tc <= 11
    post: _
    """
    return _backup('check', s0, 7, 5, 3, 9, True, 5, tp, tc, 11, True, False, False, 10)


def backup_small_nowal_keep_d9(s0: int, tp: int, tc: int) -> bool:
    """
    As backup_sched_*, with pack_size_target = 10: every object the concurrent client packs opens a NEW pack file (pack
    files that did not exist when the backup started).
    pre: 1 <= s0 <= 70000 and 5 <= tp <= 11 and tp <= tc <= 11
    post: _
    """
    return _backup('check', s0, 7, 5, 3, 9, False, 5, tp, tc, 9, False, False, False, 10)


def backup_small_nowal_keep_d11(s0: int, tp: int, tc: int) -> bool:
    """
    As backup_sched_*, with pack_size_target = 10: every object the concurrent client packs opens a NEW pack file (pack
    files that did not exist when the backup started).
    pre: 1 <= s0 <= 70000 and 5 <= tp <= 11 and tp <= tc <= 11
    post: _
    """
    return _backup('check', s0, 7, 5, 3, 9, False, 5, tp, tc, 11, False, False, False, 10)


def backup_small_nowal_clean_d9(s0: int, tp: int, tc: int) -> bool:
    """
    As backup_sched_*, with pack_size_target = 10: every object the concurrent client packs opens a NEW pack file (pack
    files that did not exist when the backup started).
    pre: 1 <= s0 <= 70000 and 5 <= tp <= 11 and tp <= tc <= 11
    post: _
    """
    return _backup('check', s0, 7, 5, 3, 9, False, 5, tp, tc, 9, True, False, False, 10)


def backup_small_nowal_clean_d11(s0: int, tp: int, tc: int) -> bool:
    """
    As backup_sched_*, with pack_size_target = 10: every object the concurrent client packs opens a NEW pack file (pack
    files that did not exist when the backup started).
    pre: 1 <= s0 <= 70000 and 5 <= tp <= 11 and tp <= tc <= 11
    post: _
    """
    return _backup('check', s0, 7, 5, 3, 9, False, 5, tp, tc, 11, True, False, False, 10)


def backup_again(s0: int, wal: bool, tp: int, tc: int, cl: bool) -> bool:
    """
    Two successive backups (the second one incremental, --link-dest on the first); events during the first.
    pre: 1 <= s0 <= 70000
    pre: 5 <= tp <= 11 and tp <= tc <= 11
    post: _
    """
    return _backup('check', s0, 7, 5, 3, 9, wal, 5, tp, tc, 9, cl, True)


def backup_incr_wal_keep_later(s0: int, tp: int, tc: int) -> bool:
    """
    Two successive backups, the second incremental on the first (rsync --link-dest hard-links what it finds unchanged);
    another client packs (clean_loose_per_pack=False) and cleans between the two backups or early in the second (instants
    10..17 of the backup clock); a further client keeps an index connection open (no checkpoint); the second backup starts in a later second.
    pre: 1 <= s0 <= 70000 and 10 <= tp <= 17 and tp <= tc <= 17
    post: _
    """
    return _backup('check', s0, 7, 5, 3, 9, True, 5, tp, tc, 11, False, True, False)


def backup_incr_wal_keep_same(s0: int, tp: int, tc: int) -> bool:
    """
    Two successive backups, the second incremental on the first (rsync --link-dest hard-links what it finds unchanged);
    another client packs (clean_loose_per_pack=False) and cleans between the two backups or early in the second (instants
    10..17 of the backup clock); a further client keeps an index connection open (no checkpoint); both backups fall into the same wall-clock second.
    pre: 1 <= s0 <= 70000 and 10 <= tp <= 17 and tp <= tc <= 17
    post: _
    """
    return _backup('check', s0, 7, 5, 3, 9, True, 5, tp, tc, 11, False, True, True)


def backup_incr_wal_clean_later(s0: int, tp: int, tc: int) -> bool:
    """
    Two successive backups, the second incremental on the first (rsync --link-dest hard-links what it finds unchanged);
    another client packs (clean_loose_per_pack=True) and cleans between the two backups or early in the second (instants
    10..17 of the backup clock); a further client keeps an index connection open (no checkpoint); the second backup starts in a later second.
    pre: 1 <= s0 <= 70000 and 10 <= tp <= 17 and tp <= tc <= 17
    post: _
    """
    return _backup('check', s0, 7, 5, 3, 9, True, 5, tp, tc, 11, True, True, False)


def backup_incr_wal_clean_same(s0: int, tp: int, tc: int) -> bool:
    """
    Two successive backups, the second incremental on the first (rsync --link-dest hard-links what it finds unchanged);
    another client packs (clean_loose_per_pack=True) and cleans between the two backups or early in the second (instants
    10..17 of the backup clock); a further client keeps an index connection open (no checkpoint); both backups fall into the same wall-clock second.
    pre: 1 <= s0 <= 70000 and 10 <= tp <= 17 and tp <= tc <= 17
    post: _
    """
    return _backup('check', s0, 7, 5, 3, 9, True, 5, tp, tc, 11, True, True, True)


def backup_incr_nowal_keep_later(s0: int, tp: int, tc: int) -> bool:
    """
    Two successive backups, the second incremental on the first (rsync --link-dest hard-links what it finds unchanged);
    another client packs (clean_loose_per_pack=False) and cleans between the two backups or early in the second (instants
    10..17 of the backup clock); no further connection; the second backup starts in a later second.
    pre: 1 <= s0 <= 70000 and 10 <= tp <= 17 and tp <= tc <= 17
    post: _
    """
    return _backup('check', s0, 7, 5, 3, 9, False, 5, tp, tc, 11, False, True, False)


def backup_incr_nowal_keep_same(s0: int, tp: int, tc: int) -> bool:
    """
    Two successive backups, the second incremental on the first (rsync --link-dest hard-links what it finds unchanged);
    another client packs (clean_loose_per_pack=False) and cleans between the two backups or early in the second (instants
    10..17 of the backup clock); no further connection; both backups fall into the same wall-clock second.
    pre: 1 <= s0 <= 70000 and 10 <= tp <= 17 and tp <= tc <= 17
    post: _
    """
    return _backup('check', s0, 7, 5, 3, 9, False, 5, tp, tc, 11, False, True, True)


def backup_incr_nowal_clean_later(s0: int, tp: int, tc: int) -> bool:
    """
    Two successive backups, the second incremental on the first (rsync --link-dest hard-links what it finds unchanged);
    another client packs (clean_loose_per_pack=True) and cleans between the two backups or early in the second (instants
    10..17 of the backup clock); no further connection; the second backup starts in a later second.
    pre: 1 <= s0 <= 70000 and 10 <= tp <= 17 and tp <= tc <= 17
    post: _
    """
    return _backup('check', s0, 7, 5, 3, 9, False, 5, tp, tc, 11, True, True, False)


def backup_incr_nowal_clean_same(s0: int, tp: int, tc: int) -> bool:
    """
    Two successive backups, the second incremental on the first (rsync --link-dest hard-links what it finds unchanged);
    another client packs (clean_loose_per_pack=True) and cleans between the two backups or early in the second (instants
    10..17 of the backup clock); no further connection; both backups fall into the same wall-clock second.
    pre: 1 <= s0 <= 70000 and 10 <= tp <= 17 and tp <= tc <= 17
    post: _
    """
    return _backup('check', s0, 7, 5, 3, 9, False, 5, tp, tc, 11, True, True, True)


def backup_reach(tp: int, tc: int) -> bool:
    """
    Reachability twin: must be REFUTED (a backup completes with pack + clean falling between its copy phases).
    pre: 5 <= tp <= 11 and tp <= tc <= 11
    post: _
    """
    return _backup('reach', 66000, 7, 5, 3, 9, False, 5, tp, tc, 11, True, False)
