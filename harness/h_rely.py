"""A reader under the rely of concurrent loose writers and one packer+cleaner (C04; C18 one-open-file clause)."""
from vf.tworld import TObj, TWorld, t_install, tkey


def _reader(what, s0, s1, tw1, tp0, tc0, tu0, tp1, tc1, tu1, pre_q, mode):
    # object 0 exists loose since before the start; object 1 is acknowledged at tw1 <= 0; both get packed, committed and
    # unlinked at arbitrary instants (possibly beyond the end of the read = never, from the reader's point of view)
    o0 = TObj(0, s0, -10, tp0, tc0, tu0, 0)
    o1 = TObj(1, s1, tw1 - 10, tp1, tc1, tu1, s0)
    w = TWorld([o0, o1])
    c = t_install(w)
    if pre_q:
        c.has_objects([tkey(3)])  # an earlier query pins the handle's snapshot (long-open handle)
    if mode == 0:
        ok = c.has_objects([o0.key, o1.key]) == [True, True]
    elif mode == 1:
        # a key that was never stored is part of the request
        out = c.get_objects_content([o0.key, tkey(3), o1.key], skip_if_missing=False)
        ok = len(out) == 3 and out[o0.key] == o0.content and out[o1.key] == o1.content and out[tkey(3)] is None
    elif mode == 2:
        got = list(c.get_objects_meta([o0.key, o1.key, tkey(3)], skip_if_missing=False))
        metas = dict(got)
        ok = len(got) == 3 and metas[o0.key].size == s0 and metas[o1.key].size == s1 and metas[tkey(3)].size is None
    else:
        ok = c.get_object_content(o1.key) == o1.content and c.get_object_content(o0.key) == o0.content
    if what == 'reach':
        return not (ok and w.step >= tu1 and w.step >= tu0)
    return ok and w.max_open <= 1 and w.open_handles == 0


def reader2(s0: int, s1: int, tw1: int, tp0: int, tc0: int, tu0: int, tp1: int, tc1: int, tu1: int, pre_q: bool, mode: int) -> bool:
    """
    pre: 1 <= s0 <= 70000 and 1 <= s1 <= 70000
    pre: -5 <= tp0 < tc0 < tu0 <= 40 and -5 <= tp1 < tc1 < tu1 <= 40
    pre: tw1 <= 0 and tw1 < tp1
    pre: 0 <= mode <= 3
    post: _
    """
    return _reader('check', s0, s1, tw1, tp0, tc0, tu0, tp1, tc1, tu1, pre_q, mode)


def reader2_reach(s0: int, s1: int, tw1: int, tp0: int, tc0: int, tu0: int, tp1: int, tc1: int, tu1: int, pre_q: bool, mode: int) -> bool:
    """
    Reachability twin: must be REFUTED (both loose files unlinked while the reader was running).

    pre: 1 <= s0 <= 70000 and 1 <= s1 <= 70000
    pre: -5 <= tp0 < tc0 < tu0 <= 40 and -5 <= tp1 < tc1 < tu1 <= 40
    pre: tw1 <= 0 and tw1 < tp1
    pre: 0 <= mode <= 3
    post: _
    """
    return _reader('reach', s0, s1, tw1, tp0, tc0, tu0, tp1, tc1, tu1, pre_q, mode)
