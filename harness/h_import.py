"""import_objects between two containers (C14; import clauses of C02 C09 C13)."""
from harness.common import *  # noqa
from harness.h_comp import no_unreferenced

ABSENT_SRC = {'sha256': 'b' * 64, 'sha1': 'b' * 40}


class Recorder:
    def __init__(self):
        self.events = []

    def __call__(self, action, value=None):
        self.events.append(action)


def _gen(keys):
    for k in keys:
        yield k


def _place(w, parts_loose, pack_parts):
    for i, s in parts_loose:
        w.put_loose(i, s)
    if pack_parts:
        w.set_pack(0, pack_parts)


def _import(what, hs, hd, kind, cb, f0, f1, d1, s0, s1, s2, s3, z0, r0, r1, r2, rabs, rep, tmb, compress, target):
    """source (hash hs): obj0 in form f0, obj1 in form f1 (0 loose, 1 packed, 2 packed compressed), obj2 loose.
    destination (hash hd): obj3 packed after a hole; obj1 absent / loose / packed / both (d1 = 0 / 1 / 2 / 3).
    requested: obj0/obj1/obj2 (r0/r1/r2), an absent key (rabs), obj0 a second time (rep); iterable ``kind``
    (0 list, 1 tuple, 2 set, 3 one-shot generator); progress callback iff cb; symbolic target_memory_bytes."""
    dst = make_world(target, hash_type=hd)
    src = make_world(10**9, hash_type=hs, parent=dst, name='src')
    try:
        for w in (src, dst):
            w.set_zlen(0, s0, z0)
            w.set_zlen(1, s1, z0)
            w.set_zlen(2, s2, z0)
            w.set_zlen(3, s3, z0)
        sizes = [s0, s1, s2, s3]
        loose, pack = [(2, s2)], [('junk', 0, 1)]
        for i, f in ((0, f0), (1, f1)):
            if f == 0:
                loose.append((i, sizes[i]))
            else:
                pack.append(('zobj' if f == 2 else 'obj', i, sizes[i]))
        _place(src, loose, pack)
        dpack = [('junk', 0, 2), ('obj', 3, s3)]
        if d1 >= 2:
            dpack.append(('obj', 1, s1))
        _place(dst, [(1, s1)] if d1 in (1, 3) else [], dpack)
        had = [(3, s3)] + ([(1, s1)] if d1 else [])
        before = dst.image()
        rows_before = len(before.rows())
        req = []
        if rabs:
            req.append(ABSENT_SRC[hs])
        for i, r in ((0, r0), (1, r1), (2, r2)):
            if r:
                req.append(src.key(i, sizes[i]))
        if rep and r0:
            req.append(src.key(0, s0))
        wanted = [(i, sizes[i]) for i, r in ((0, r0), (1, r1), (2, r2)) if r]
        if kind == 1:
            arg = tuple(req)
        elif kind == 2:
            arg = set(req)
        elif kind == 3:
            arg = _gen(req)
        else:
            arg = req
        rec = Recorder() if cb else None
        mapping = dst.c.import_objects(arg, src.c, compress=compress, target_memory_bytes=tmb, callback=rec)
        after = dst.image()
        if what == 'reach':
            return not (len(after.rows()) >= rows_before + 2 and len(after.pack_ids()) >= 2)
        # the mapping sends every source key it mentions to the key the content has in the destination
        srckeys = {}
        for i in range(3):
            srckeys[src.key(i, sizes[i])] = dst.key(i, sizes[i])
        for k in mapping:
            if k not in srckeys or mapping[k] != srckeys[k]:
                return False
        present = objs_map(dst, had + [p for p in wanted if p not in had])
        if not inv_ok(after, dst, present):
            return False
        if not layout_ok(before, after, target):
            return False
        # nothing already held gains a second entry or is written again; no unreferenced bytes are left behind
        nnew = 0
        for p in wanted:
            if p not in had:
                nnew += 1
        if True:
            # (with different hash algorithms a loose-only object of the destination may get its first index entry)
            extra = 1 if (hs != hd and d1 == 1 and r1) else 0
            if len(after.rows()) != rows_before + nnew + extra:
                return False
            holes = 0
            for pid in before.pack_ids():
                holes = holes + len(before.pack_data(pid))
            for r in before.rows():
                holes = holes - r['length']
            if not no_unreferenced(after, holes):
                return False
        # the source is untouched
        if not inv_ok(src.image(), src, objs_map(src, [(0, s0), (1, s1), (2, s2)])):
            return False
        return views_ok(dst.c, dst, present, ABSENT_SRC[hd])
    finally:
        src.cleanup()
        dst.cleanup()
