"""Bulk reads do not depend on the request size, order, repeats or on the internal lookup strategy (C16, bulk clause):
the two thresholds that select the strategy (_IN_SQL_MAX_LENGTH, _MAX_CHUNK_ITERATE_LENGTH) are symbolic."""
from harness.common import *  # noqa

ABSENT = 'b' * 64


def _bulk(what, s0, s1, s2, r0, r1, r2, r3, nreq, in_max, chunk_max, view):
    """obj0 loose, obj1 loose and packed, obj2 packed compressed, a fourth key absent; request = up to 4 picks."""
    w = make_world(10**9)
    try:
        w.set_zlen(2, s2, s2 + 7)  # obj2 is stored compressed: its stored length differs from its size
        w.set_pack(0, [('obj', 1, s1), ('zobj', 2, s2)])
        w.put_loose(0, s0)
        w.put_loose(1, s1)
        sizes = [s0, s1, s2]
        table = [w.key(0, s0), w.key(1, s1), w.key(2, s2), ABSENT]
        c = w.c
        c._IN_SQL_MAX_LENGTH = in_max
        c._MAX_CHUNK_ITERATE_LENGTH = chunk_max
        picks = [r0, r1, r2, r3][:nreq]
        req = [table[r] for r in picks]
        distinct = []
        for r in picks:
            if r not in distinct:
                distinct.append(r)
        if what == 'reach':
            return not (len(distinct) > chunk_max and nreq >= 2 and len(distinct) >= 2)
        if view == 0:
            return c.has_objects(req) == [r != 3 for r in picks]
        if view == 1:
            out = c.get_objects_content(req, skip_if_missing=False)
            if len(out) != len(distinct):
                return False
            for r in distinct:
                if r == 3:
                    if out[ABSENT] is not None:
                        return False
                elif not (out[table[r]] == w.content(r, sizes[r])):
                    return False
            return True
        if view == 2:
            metas = list(c.get_objects_meta(req, skip_if_missing=True))
            if sorted(k for k, _ in metas) != sorted(table[r] for r in distinct if r != 3):
                return False
            for k, m in metas:
                if m.size != sizes[table.index(k)]:
                    return False
            return True
        metas = list(c.get_objects_meta(req, skip_if_missing=False))
        if sorted(k for k, _ in metas) != sorted(table[r] for r in distinct):
            return False
        for k, m in metas:
            if k == ABSENT:
                if m.size is not None:
                    return False
            elif m.size != sizes[table.index(k)]:
                return False
        return True
    finally:
        w.cleanup()


def bulk(s0: int, s1: int, s2: int, r0: int, r1: int, r2: int, r3: int, nreq: int, in_max: int, chunk_max: int, view: int) -> bool:
    """
    pre: 1 <= s0 <= 1000 and 1 <= s1 <= 1000 and 1 <= s2 <= 1000
    pre: 0 <= r0 <= 3 and 0 <= r1 <= 3 and 0 <= r2 <= 3 and 0 <= r3 <= 3 and 0 <= nreq <= 4
    pre: 1 <= in_max <= 3 and 0 <= chunk_max <= 4 and 0 <= view <= 3
    post: _
    """
    return _bulk('check', s0, s1, s2, r0, r1, r2, r3, nreq, in_max, chunk_max, view)


def bulk_reach(s0: int, s1: int, s2: int, r0: int, r1: int, r2: int, r3: int, nreq: int, in_max: int, chunk_max: int, view: int) -> bool:
    """
    Reachability twin: must be REFUTED (a request larger than the strategy threshold is reachable).

    pre: 1 <= s0 <= 1000 and 1 <= s1 <= 1000 and 1 <= s2 <= 1000
    pre: 0 <= r0 <= 3 and 0 <= r1 <= 3 and 0 <= r2 <= 3 and 0 <= r3 <= 3 and 0 <= nreq <= 4
    pre: 1 <= in_max <= 3 and 0 <= chunk_max <= 4 and 0 <= view <= 3
    post: _
    """
    return _bulk('reach', s0, s1, s2, r0, r1, r2, r3, nreq, in_max, chunk_max, view)
