"""ZlibLikeBaseStreamDecompresser.read: one step from an arbitrary symbolic stream state (C07, packed+compressed form)."""
from typing import List

from vf.vcodec import *  # noqa


def _inv(s, pack, content, z, before, total):
    """the stream invariant: the internal buffer holds exactly the plain bytes between the logical position and what the
    inflater has produced; the unconsumed tail is the compressed bytes between what the inflater consumed and what was
    read from the pack"""
    d = s._decompressor
    if d.z is None:
        if d.c != 0 or d.p != 0:
            return False
    if not (s._internal_buffer == content[s._pos : d.p]):
        return False
    if s._pos > d.p:
        return False
    got = pack.pos - before  # compressed bytes taken from the pack so far
    if got < d.c or got > total:
        return False
    if d.eof:
        return d.c == total and d.p == len(content)
    tail = d.unconsumed_tail
    return tail == Seg([(z, d.c, got)])


def _zread(what, n, total, before, pos, c, u, a, tape):
    content = Seg([(('obj', 0, n), 0, n)])
    z = ZTok(content, total)
    if c + u > total:
        return True
    t = Tape(tape)
    NDDecompressObj.tape = t
    try:
        # state: `c` compressed bytes consumed, `p` plain bytes produced (any value >= pos the contract allows)
        p = t.draw(pos, n)
        if c == 0 and p != 0:
            return True
        if c == total and p != n:
            return True
        if c == total and u:
            return True
        pack = MemStream(Seg([(('junk', 0), 0, before)]) + Seg([(z, 0, total)]) + Seg([(('junk', 1), 0, 1)]))
        s = NDDecompresser(PackedObjectReader(pack, before, total))
        d = s._decompressor
        d.z = z if c > 0 else None
        d.c, d.p, d.eof = c, p, (c == total)
        d.unconsumed_tail = Seg([(z, c, c + u)]) if c < total else EMPTY
        s._pos = pos
        s._internal_buffer = content[pos:p]
        pack.pos = before + c + u
        s._compressed_stream._pos = c + u
        k = a if a >= 0 else n - pos
        k = min(k, max(0, n - pos))
        old = p - pos
        got = s.read(a)
        if what == 'reach':
            return not (u == 524288 and k > 0 and len(got) == k)
        # C18 (chunked I/O): what stays buffered after read(a) is bounded by the request, not by the object
        if a > 0 and len(s._internal_buffer) > max(old - a, a - 1):
            return False
        if not _inv(s, pack, content, z, before, total):
            return False  # the invariant is re-established: any later step starts from a state these cells cover
        return (got == content[pos : pos + k]) and s.tell() == pos + k
    except Vacuous:
        return True


def zread_small(n: int, total: int, before: int, pos: int, c: int, u: int, a: int, tape: List[int]) -> bool:
    """
    read(a) with a up to one chunk.
    pre: 0 <= n <= 2000000 and 2 <= total <= 2000000 and 0 <= before <= 2
    pre: 0 <= pos and 0 <= c and 0 <= u <= 524288
    pre: 0 <= a <= 524288
    pre: len(tape) <= 5
    post: _
    """
    return _zread('check', n, total, before, pos, c, u, a, tape)


def zread_big(n: int, total: int, before: int, pos: int, c: int, u: int, a: int, tape: List[int]) -> bool:
    """
    read(a) with a above one chunk.
    pre: 0 <= n <= 2000000 and 2 <= total <= 2000000 and 0 <= before <= 2
    pre: 0 <= pos and 0 <= c and 0 <= u <= 524288
    pre: 524288 < a <= 2100000
    pre: len(tape) <= 5
    post: _
    """
    return _zread('check', n, total, before, pos, c, u, a, tape)


def zread_reach(n: int, total: int, before: int, pos: int, c: int, u: int, a: int, tape: List[int]) -> bool:
    """
    Reachability twin: must be REFUTED (a successful non-empty read from a state whose unconsumed tail is a full chunk).
    pre: 0 <= n <= 2000000 and 2 <= total <= 2000000 and 0 <= before <= 2
    pre: 0 <= pos and 0 <= c and 0 <= u <= 524288
    pre: -1 <= a <= 2100000
    pre: len(tape) <= 5
    post: _
    """
    return _zread('reach', n, total, before, pos, c, u, a, tape)


def _zseek(what, n, total, before, pos, c, u, t, whence, a, tape):
    """one seek(t, whence) of the streaming decompresser (no loose cache) from an arbitrary symbolic stream state,
    then read(a): position, returned value and bytes must be those of an in-memory file over the object."""
    content = Seg([(('obj', 0, n), 0, n)])
    z = ZTok(content, total)
    if c + u > total or pos > n:
        return True
    tp = Tape(tape)
    NDDecompressObj.tape = tp
    try:
        p = tp.draw(pos, n)
        if c == 0 and p != 0:
            return True
        if c == total and (p != n or u):
            return True
        pack = MemStream(Seg([(('junk', 0), 0, before)]) + Seg([(z, 0, total)]) + Seg([(('junk', 1), 0, 1)]))
        s = NDDecompresser(PackedObjectReader(pack, before, total))
        d = s._decompressor
        d.z = z if c > 0 else None
        d.c, d.p, d.eof = c, p, (c == total)
        d.unconsumed_tail = Seg([(z, c, c + u)]) if c < total else EMPTY
        s._pos = pos
        s._internal_buffer = content[pos:p]
        pack.pos = before + c + u
        s._compressed_stream._pos = c + u
        target = t if whence == 0 else pos + t
        try:
            r = s.seek(t, whence)
        except ValueError:
            # rejected: only negative targets may be, and the position must be untouched
            return target < 0 and s.tell() == pos
        if target < 0:
            return False
        want = min(target, n)  # beyond the end: clamped
        if what == 'reach':
            return not (target < pos and target > 0 and p > pos)
        if r != want or s.tell() != want:
            return False
        if not _inv(s, pack, content, z, before, total):
            return False  # invariant re-established: every later read/seek starts from a state the one-step cells cover
        if a < 0:
            return True
        k = min(a, n - want)
        got = s.read(a)
        return (got == content[want : want + k]) and s.tell() == want + k
    except Vacuous:
        return True


def zseek_zero(n: int, total: int, before: int, pos: int, c: int, u: int, a: int, tape: List[int]) -> bool:
    """
    seek(0, 0) (rewind) from any state, then read(a).
    pre: 0 <= n <= 2000000 and 2 <= total <= 2000000 and 0 <= before <= 2
    pre: 0 <= pos and 0 <= c and 0 <= u <= 524288
    pre: 0 <= a <= 600000
    pre: len(tape) <= 5
    post: _
    """
    return _zseek('check', n, total, before, pos, c, u, 0, 0, a, tape)


def zseek_back(n: int, total: int, before: int, pos: int, c: int, u: int, t: int, tape: List[int]) -> bool:
    """
    seek(t, 0) to a target before the current position (rewind, then inflate forward again); invariant afterwards.
    pre: 0 <= n <= 200000 and 2 <= total <= 2000000 and 0 <= before <= 2
    pre: 0 <= pos and 0 <= c and 0 <= u <= 524288
    pre: -2 <= t < pos
    pre: len(tape) <= 5
    post: _
    """
    return _zseek('check', n, total, before, pos, c, u, t, 0, -1, tape)


def zseek_fwd(n: int, total: int, before: int, pos: int, c: int, u: int, t: int, tape: List[int]) -> bool:
    """
    seek(t, 0) to a target at or after the current position (also beyond the end: clamped); invariant afterwards.
    pre: 0 <= n <= 200000 and 2 <= total <= 2000000 and 0 <= before <= 2
    pre: 0 <= pos and 0 <= c and 0 <= u <= 524288
    pre: pos <= t <= 200010
    pre: len(tape) <= 5
    post: _
    """
    return _zseek('check', n, total, before, pos, c, u, t, 0, -1, tape)


def zseek_rel_back(n: int, total: int, before: int, pos: int, c: int, u: int, t: int, tape: List[int]) -> bool:
    """
    seek(t, 1) with t < 0 landing strictly inside (0, pos); invariant afterwards.
    pre: 0 <= n <= 200000 and 2 <= total <= 2000000 and 0 <= before <= 2
    pre: 0 <= pos and 0 <= c and 0 <= u <= 524288
    pre: -200010 <= t < 0 and pos + t > 0
    pre: len(tape) <= 5
    post: _
    """
    return _zseek('check', n, total, before, pos, c, u, t, 1, -1, tape)


def zseek_rel_zero(n: int, total: int, before: int, pos: int, c: int, u: int, t: int, a: int, tape: List[int]) -> bool:
    """
    seek(t, 1) with t < 0 landing exactly on 0 (rewind), then read(a).
    pre: 0 <= n <= 2000000 and 2 <= total <= 2000000 and 0 <= before <= 2
    pre: 0 <= pos and 0 <= c and 0 <= u <= 524288
    pre: -2000010 <= t < 0 and pos + t == 0 and 0 <= a <= 600000
    pre: len(tape) <= 5
    post: _
    """
    return _zseek('check', n, total, before, pos, c, u, t, 1, a, tape)


def zseek_rel_neg(n: int, total: int, before: int, pos: int, c: int, u: int, t: int, tape: List[int]) -> bool:
    """
    seek(t, 1) landing before the start: rejected with the position (and the whole stream state) unchanged.
    pre: 0 <= n <= 2000000 and 2 <= total <= 2000000 and 0 <= before <= 2
    pre: 0 <= pos and 0 <= c and 0 <= u <= 524288
    pre: -2000010 <= t < 0 and -3 <= pos + t < 0
    pre: len(tape) <= 2
    post: _
    """
    return _zseek('check', n, total, before, pos, c, u, t, 1, -1, tape)


def zseek_rel_fwd(n: int, total: int, before: int, pos: int, c: int, u: int, t: int, tape: List[int]) -> bool:
    """
    seek(t, 1) with t >= 0; invariant afterwards.
    pre: 0 <= n <= 200000 and 2 <= total <= 2000000 and 0 <= before <= 2
    pre: 0 <= pos and 0 <= c and 0 <= u <= 524288
    pre: 0 <= t <= 200010
    pre: len(tape) <= 5
    post: _
    """
    return _zseek('check', n, total, before, pos, c, u, t, 1, -1, tape)


def zseek_far(n: int, total: int, t: int, tape: List[int]) -> bool:
    """
    seek(t, 0) from the initial state across the 256 KiB read-ahead step of _seek_internal; invariant afterwards.
    pre: 262000 <= n <= 600000 and 2 <= total <= 2000000
    pre: 262000 <= t <= 600010
    pre: len(tape) <= 6
    post: _
    """
    return _zseek('check', n, total, 1, 0, 0, 0, t, 0, -1, [0] + tape)


def zseek_reach(n: int, total: int, before: int, pos: int, c: int, u: int, t: int, a: int, tape: List[int]) -> bool:
    """
    Reachability twin: must be REFUTED (a backward seek to a non-zero target from a state with buffered bytes succeeds).
    pre: 0 <= n <= 400000 and 2 <= total <= 2000000 and 0 <= before <= 2
    pre: 0 <= pos and 0 <= c and 0 <= u <= 524288
    pre: -2 <= t <= 400010 and 0 <= a <= 300000
    pre: len(tape) <= 9
    post: _
    """
    return _zseek('reach', n, total, before, pos, c, u, t, 0, a, tape)
