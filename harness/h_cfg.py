"""Container configurations (hash type x loose prefix length) on every write path (C01), refused re-initialisation and
the base case of the history induction (C02)."""
from harness.common import *  # noqa


def _cfg(ht, pl, s0, s1, s2):
    w = make_world(10**9, prefix_len=pl, hash_type=ht)
    try:
        absent = 'b' * (64 if ht == 'sha256' else 40)
        objs = objs_map(w, [(0, s0), (1, s1), (2, s2)])
        k0 = w.c.add_object(w.content(0, s0))
        k1 = w.c.add_streamed_object(w.stream(1, s1))
        if k0 != w.key(0, s0) or k1 != w.key(1, s1):
            return False
        if not inv_ok(w.image(), w, objs_map(w, [(0, s0), (1, s1)])):
            return False
        w.c.pack_all_loose()
        k2 = w.c.add_objects_to_pack([w.content(2, s2)])
        if k2 != [w.key(2, s2)]:
            return False
        if not inv_ok(w.image(), w, objs) or not views_ok(w.c, w, objs, absent) or not chunked_ok(w.c, w, objs):
            return False
        w.c.clean_storage()
        img = w.image()
        return len(img.loose_keys()) == 0 and inv_ok(img, w, objs) and views_ok(w.c, w, objs, absent)
    finally:
        w.cleanup()


def _init_refused(s0, clear, target, prefix):
    """init_container(clear=False) on an initialised container raises and changes nothing, whatever the arguments;
    init_container on a new empty folder yields an empty, valid, usable container (base case)."""
    w = make_world(10**9)
    try:
        w.set_pack(0, [('junk', 0, 1), ('obj', 1, 7)])
        w.put_loose(0, s0)
        objs = objs_map(w, [(0, s0), (1, 7)])
        c2 = w.new_handle()
        try:
            c2.init_container(clear=False, pack_size_target=target, loose_prefix_len=prefix)
            return False
        except (FileExistsError, ValueError):
            pass
        finally:
            c2.close()
        if not inv_ok(w.image(), w, objs) or not views_ok(w.c, w, objs, 'b' * 64):
            return False
        # base case: a fresh container
        c3 = w.C.Container(w.fresh_folder())
        try:
            c3.init_container(clear=False, pack_size_target=1000, loose_prefix_len=2)
            if list(c3.list_all_objects()) != [] or not c3.validate().is_valid():
                return False
            cnt = c3.count_objects()
            if cnt.packed != 0 or cnt.loose != 0 or cnt.pack_files != 0:
                return False
            k = c3.add_streamed_object(w.stream(0, s0))
            return k == w.key(0, s0) and c3.get_object_content(k) == w.content(0, s0)
        finally:
            c3.close()
    finally:
        w.cleanup()


def init_refused(s0: int, clear: bool, target: int, prefix: int) -> bool:
    """
    pre: 1 <= s0 <= 70000 and -2 <= target <= 100000 and -2 <= prefix <= 4
    post: _
    """
    return _init_refused(s0, False, target, prefix)


def cfg_sha1_p0(s0: int, s1: int, s2: int) -> bool:
    """
    pre: 0 <= s0 <= 3 and 1 <= s1 <= 70000 and 1 <= s2 <= 3
    post: _
    """
    return _cfg('sha1', 0, s0, s1, s2)


def cfg_sha1_p1(s0: int, s1: int, s2: int) -> bool:
    """
    pre: 0 <= s0 <= 3 and 1 <= s1 <= 70000 and 1 <= s2 <= 3
    post: _
    """
    return _cfg('sha1', 1, s0, s1, s2)


def cfg_sha1_p2(s0: int, s1: int, s2: int) -> bool:
    """
    pre: 0 <= s0 <= 3 and 1 <= s1 <= 70000 and 1 <= s2 <= 3
    post: _
    """
    return _cfg('sha1', 2, s0, s1, s2)


def cfg_sha1_p3(s0: int, s1: int, s2: int) -> bool:
    """
    pre: 0 <= s0 <= 3 and 1 <= s1 <= 70000 and 1 <= s2 <= 3
    post: _
    """
    return _cfg('sha1', 3, s0, s1, s2)


def cfg_sha256_p0(s0: int, s1: int, s2: int) -> bool:
    """
    pre: 0 <= s0 <= 3 and 1 <= s1 <= 70000 and 1 <= s2 <= 3
    post: _
    """
    return _cfg('sha256', 0, s0, s1, s2)


def cfg_sha256_p1(s0: int, s1: int, s2: int) -> bool:
    """
    pre: 0 <= s0 <= 3 and 1 <= s1 <= 70000 and 1 <= s2 <= 3
    post: _
    """
    return _cfg('sha256', 1, s0, s1, s2)


def cfg_sha256_p2(s0: int, s1: int, s2: int) -> bool:
    """
    pre: 0 <= s0 <= 3 and 1 <= s1 <= 70000 and 1 <= s2 <= 3
    post: _
    """
    return _cfg('sha256', 2, s0, s1, s2)


def cfg_sha256_p3(s0: int, s1: int, s2: int) -> bool:
    """
    pre: 0 <= s0 <= 3 and 1 <= s1 <= 70000 and 1 <= s2 <= 3
    post: _
    """
    return _cfg('sha256', 3, s0, s1, s2)


def _packid(n0, n1, n2, e, target, cached, known, kv):
    """_get_pack_id_to_write_to over up to three existing packs of symbolic sizes, a symbolic cached id (None or any id
    not above the first non-full pack: what every earlier call leaves behind) and a symbolic known_sizes entry."""
    w = make_world(target)
    try:
        sizes = [n0, n1, n2][:e]
        for pid in range(e):
            w.set_pack(pid, [('junk', pid, sizes[pid])])
        first = e
        for pid in range(e):
            if sizes[pid] < target:
                first = pid
                break
        if cached > first:
            return True  # not a state an earlier call can leave
        w.c._current_pack_id = None if cached < 0 else cached
        ks = None
        eff = list(sizes)
        if known >= 0 and known < e:
            ks = {known: kv}
            eff[known] = kv
        got = w.c._get_pack_id_to_write_to(known_sizes=ks)
        want = e
        for pid in range(max(cached, 0), e):
            if eff[pid] < target:
                want = pid
                break
        return got == want and w.c._current_pack_id == want
    finally:
        w.cleanup()


def packid_e0_kn(n0: int, n1: int, n2: int, target: int, kv: int) -> bool:
    """
    pre: 0 <= n0 <= 1000 and 0 <= n1 <= 1000 and 0 <= n2 <= 1000 and 1 <= target <= 1000
    pre: 0 <= kv <= 1000
    post: _
    """
    return all(_packid(n0, n1, n2, 0, target, cached, -1, kv) for cached in (-1, 0, 1, 2, 3))  # the cached id is enumerated: it is turned into a path string


def packid_e1_kn(n0: int, n1: int, n2: int, target: int, kv: int) -> bool:
    """
    pre: 0 <= n0 <= 1000 and 0 <= n1 <= 1000 and 0 <= n2 <= 1000 and 1 <= target <= 1000
    pre: 0 <= kv <= 1000
    post: _
    """
    return all(_packid(n0, n1, n2, 1, target, cached, -1, kv) for cached in (-1, 0, 1, 2, 3))  # the cached id is enumerated: it is turned into a path string


def packid_e1_k0(n0: int, n1: int, n2: int, target: int, kv: int) -> bool:
    """
    pre: 0 <= n0 <= 1000 and 0 <= n1 <= 1000 and 0 <= n2 <= 1000 and 1 <= target <= 1000
    pre: 0 <= kv <= 1000
    post: _
    """
    return all(_packid(n0, n1, n2, 1, target, cached, 0, kv) for cached in (-1, 0, 1, 2, 3))  # the cached id is enumerated: it is turned into a path string


def packid_e2_kn(n0: int, n1: int, n2: int, target: int, kv: int) -> bool:
    """
    pre: 0 <= n0 <= 1000 and 0 <= n1 <= 1000 and 0 <= n2 <= 1000 and 1 <= target <= 1000
    pre: 0 <= kv <= 1000
    post: _
    """
    return all(_packid(n0, n1, n2, 2, target, cached, -1, kv) for cached in (-1, 0, 1, 2, 3))  # the cached id is enumerated: it is turned into a path string


def packid_e2_k1(n0: int, n1: int, n2: int, target: int, kv: int) -> bool:
    """
    pre: 0 <= n0 <= 1000 and 0 <= n1 <= 1000 and 0 <= n2 <= 1000 and 1 <= target <= 1000
    pre: 0 <= kv <= 1000
    post: _
    """
    return all(_packid(n0, n1, n2, 2, target, cached, 1, kv) for cached in (-1, 0, 1, 2, 3))  # the cached id is enumerated: it is turned into a path string


def packid_e3_kn(n0: int, n1: int, n2: int, target: int, kv: int) -> bool:
    """
    pre: 0 <= n0 <= 1000 and 0 <= n1 <= 1000 and 0 <= n2 <= 1000 and 1 <= target <= 1000
    pre: 0 <= kv <= 1000
    post: _
    """
    return all(_packid(n0, n1, n2, 3, target, cached, -1, kv) for cached in (-1, 0, 1, 2, 3))  # the cached id is enumerated: it is turned into a path string


def packid_e3_k2(n0: int, n1: int, n2: int, target: int, kv: int) -> bool:
    """
    pre: 0 <= n0 <= 1000 and 0 <= n1 <= 1000 and 0 <= n2 <= 1000 and 1 <= target <= 1000
    pre: 0 <= kv <= 1000
    post: _
    """
    return all(_packid(n0, n1, n2, 3, target, cached, 2, kv) for cached in (-1, 0, 1, 2, 3))  # the cached id is enumerated: it is turned into a path string


def _bulk_pack(s0, s1, s2, in_max, chunk_max, clean):
    """pack_all_loose / clean_storage with symbolic lookup-strategy thresholds: obj0 loose, obj1 loose AND packed,
    obj2 packed; the result must be the one of the default strategy (C16)."""
    w = make_world(10**9)
    try:
        w.set_pack(0, [('junk', 0, 1), ('obj', 1, s1), ('obj', 2, s2)])
        w.put_loose(0, s0)
        w.put_loose(1, s1)
        w.c._IN_SQL_MAX_LENGTH = in_max
        w.c._MAX_CHUNK_ITERATE_LENGTH = chunk_max
        objs = objs_map(w, [(0, s0), (1, s1), (2, s2)])
        w.c.pack_all_loose(clean_loose_per_pack=clean)
        img = w.image()
        if not inv_ok(img, w, objs) or len(img.rows()) != 3:
            return False
        if len(img.pack_data(0)) != 1 + s1 + s2 + s0:  # obj1 was already packed: not written again
            return False
        w.c.clean_storage()
        img = w.image()
        if len(img.loose_keys()) != 0 or not inv_ok(img, w, objs):
            return False
        return views_ok(w.c, w, objs, 'b' * 64)
    finally:
        w.cleanup()


def bulk_pack(s0: int, s1: int, s2: int, in_max: int, chunk_max: int, clean: bool) -> bool:
    """
    pre: 1 <= s0 <= 1000 and 1 <= s1 <= 1000 and 1 <= s2 <= 1000 and 1 <= in_max <= 2 and 0 <= chunk_max <= 3
    post: _
    """
    return _bulk_pack(s0, s1, s2, in_max, chunk_max, clean)


def _paging(page, s0, nh):
    """the two primary-key paging loops (list_all_objects, the known-keys scan of no_holes) with a page size of 1..3 rows
    over 4 packed objects and a loose one"""
    w = make_world(10**9, page=page)
    try:
        w.set_next_id(5001)  # primary keys are sparse in a container that has seen deletions
        w.set_pack(0, [('junk', 0, 1), ('obj', 1, 5), ('obj', 2, 6), ('obj', 3, 7), ('obj', 4, 8)])
        w.put_loose(0, s0)
        objs = objs_map(w, [(0, s0), (1, 5), (2, 6), (3, 7), (4, 8)])
        listed = list(w.c.list_all_objects())
        if sorted(listed) != sorted(objs) or len(listed) != 5:
            return False
        before = len(w.image().pack_data(0))
        keys = w.c.add_streamed_objects_to_pack([w.stream(4, 8), w.stream(1, 5), w.stream(3, 7), w.stream(2, 6)], no_holes=True,
                                                no_holes_read_twice=nh)
        if keys != [w.key(4, 8), w.key(1, 5), w.key(3, 7), w.key(2, 6)]:
            return False
        img = w.image()
        return len(img.pack_data(0)) == before and len(img.rows()) == 4 and inv_ok(img, w, objs)
    finally:
        w.cleanup()


def paging(page: int, s0: int, nh: bool) -> bool:
    """
    pre: 1 <= page <= 3 and 1 <= s0 <= 1000
    post: _
    """
    return _paging(page, s0, nh)


def _reinit(n0, n1, s0, s1, target, target2):
    """a handle that has written to packs 0..k re-initialises the container (clear=True) and writes again: the new
    container's packs are numbered from zero again and filled in order (C13 over a history containing a re-init)"""
    w = make_world(target)
    try:
        w.set_pack(0, [('junk', 0, n0)])
        w.set_pack(1, [('junk', 1, n1)])
        if w.c.add_objects_to_pack([w.content(0, s0)]) != [w.key(0, s0)]:
            return False
        w.c.init_container(clear=True, pack_size_target=target2)
        img0 = w.image()
        if img0.pack_ids() != []:
            return False
        if w.c.add_objects_to_pack([w.content(1, s1)]) != [w.key(1, s1)]:
            return False
        img1 = w.image()
        if not layout_ok(img0, img1, target2):
            return False
        if w.c.add_objects_to_pack([w.content(0, s0)]) != [w.key(0, s0)]:
            return False
        img2 = w.image()
        return layout_ok(img1, img2, target2) and w.c.get_object_content(w.key(1, s1)) == w.content(1, s1) and w.c.get_object_content(w.key(0, s0)) == w.content(0, s0)
    finally:
        w.cleanup()


def reinit_packid(s0: int, s1: int, target2: int) -> bool:
    """
    pre: 1 <= s0 <= 1000 and 1 <= s1 <= 1000 and 1 <= target2 <= 1000
    post: _
    """
    return _reinit(10, 9, s0, s1, 5, target2)  # the first write goes to pack 2 and leaves 2 as the cached id
