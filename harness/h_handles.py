"""Several handles on one container, operations issued one at a time (C08)."""
from harness.common import *  # noqa

ABSENT = 'b' * 64


def _handles(what, sp, s0, s1, q1, pack, clean, q2):
    w = make_world(10**9)
    try:
        w.set_pack(0, [('obj', 2, sp)])
        h = w.c  # the long-open handle under test
        other = w.new_handle()
        k2 = w.key(2, sp)
        # an earlier query may pin h's index snapshot
        if q1 == 1:
            h.has_objects([ABSENT])
        elif q1 == 2:
            list(h.list_all_objects())
        elif q1 == 3:
            h.get_objects_meta([k2])
        elif q1 == 4:
            h.get_object_content(k2)
        k0 = other.add_streamed_object(w.stream(0, s0))
        if pack:
            other.pack_all_loose()
        if clean:
            other.clean_storage()
        k1 = other.add_streamed_object(w.stream(1, s1))
        objs = objs_map(w, [(0, s0), (1, s1), (2, sp)])
        keys = [k0, k1, k2]
        if what == 'reach':
            return not (pack and clean and q1 >= 1)
        if q2 == 0:
            ok = h.has_objects(keys) == [True, True, True]
        elif q2 == 1:
            out = h.get_objects_content(keys)
            ok = len(out) == len(set(keys))
            for k in keys:
                ok = ok and out[k] == w.content(*objs[k])
        elif q2 == 2:
            metas = dict(h.get_objects_meta(keys, skip_if_missing=False))
            ok = all(metas[k].size == objs[k][1] for k in keys)
        else:
            ok = sorted(h.list_all_objects()) == sorted(set(keys))
        other.close()
        return ok
    finally:
        w.cleanup()


def handles(sp: int, s0: int, s1: int, q1: int, pack: bool, clean: bool, q2: int) -> bool:
    """
    pre: 1 <= sp <= 70000 and 1 <= s0 <= 70000 and 1 <= s1 <= 70000
    pre: 0 <= q1 <= 4 and 0 <= q2 <= 3
    post: _
    """
    return _handles('check', sp, s0, s1, q1, pack, clean, q2)


def handles_reach(sp: int, s0: int, s1: int, q1: int, pack: bool, clean: bool, q2: int) -> bool:
    """
    Reachability twin: must be REFUTED (pinned handle + pack + clean through another handle is reachable).

    pre: 1 <= sp <= 70000 and 1 <= s0 <= 70000 and 1 <= s1 <= 70000
    pre: 0 <= q1 <= 4 and 0 <= q2 <= 3
    post: _
    """
    return _handles('reach', sp, s0, s1, q1, pack, clean, q2)


def _query(h, w, q, pairs):
    """one view of handle h over the acknowledged objects `pairs`; q: 0 has, 1 get (bulk), 2 meta, 3 list, 4 single get"""
    objs = objs_map(w, pairs)
    keys = list(objs)
    if q == 0:
        return h.has_objects(keys) == [True] * len(keys)
    if q == 1:
        out = h.get_objects_content(keys)
        ok = len(out) == len(keys)
        for k in keys:
            ok = ok and k in out and out[k] == w.content(*objs[k])
        return ok
    if q == 2:
        # a key that does not exist is part of the request: it is reported MISSING once, every object once
        got = list(h.get_objects_meta(keys + [ABSENT], skip_if_missing=False))
        if len(got) != len(keys) + 1:
            return False
        metas = dict(got)
        return metas[ABSENT].size is None and all(metas[k].size == objs[k][1] for k in keys)
    if q == 3:
        return sorted(h.list_all_objects()) == sorted(keys)
    ok = True
    for k in keys:
        ok = ok and h.get_object_content(k) == w.content(*objs[k])
    return ok


def _handles3(sp, s0, q1, q2, q3, pack1, clean1, pack2, clean2, small=False, creator=False):
    """three handles: H (long-open, under test), A (adds loose objects), B (packs and cleans).  H queries, A adds, B may
    pack/clean, H queries again (everything acknowledged so far), A adds, B may pack/clean, H itself adds, H queries.
    ``small``: a tiny pack_size_target, so that every packed object lands in a pack of its own; ``creator``: H is the
    handle that created the container with init_container() and has stayed open since."""
    w = make_world(10 if small else 10**9)
    try:
        if creator:
            h = w.C.Container(w.fresh_folder())
            h.init_container(pack_size_target=10 if small else 10**9)
            root = w.fresh_folder()
            boot = w.new_handle(root)
            boot.add_streamed_objects_to_pack([w.stream(2, sp)])
            boot.close()
            a, b = w.new_handle(root), w.new_handle(root)
        else:
            w.set_pack(0, [('obj', 2, sp)])
            h, a, b = w.c, w.new_handle(), w.new_handle()
        if q1 < 5 and not _query(h, w, q1, [(2, sp)]):
            return False
        a.add_streamed_object(w.stream(0, s0))
        if pack1:
            b.pack_all_loose()
        if clean1:
            b.clean_storage()
        if not _query(h, w, q2, [(2, sp), (0, s0)]):
            return False
        a.add_streamed_object(w.stream(1, 17))
        if pack2:
            b.pack_all_loose(clean_loose_per_pack=clean2)
        if clean2:
            b.clean_storage()
        h.add_streamed_object(w.stream(3, 19))
        ok = _query(h, w, q3, [(2, sp), (0, s0), (1, 17), (3, 19)])
        a.close()
        b.close()
        if creator:
            h.close()
        return ok
    finally:
        w.cleanup()


def handles3_q0(sp: int, s0: int, q1: int, pack1: bool, clean1: bool, pack2: bool, clean2: bool) -> bool:
    """
    pre: 1 <= sp <= 70000 and 1 <= s0 <= 70000 and 0 <= q1 <= 5
    post: _
    """
    return _handles3(sp, s0, q1, 0, 0, pack1, clean1, pack2, clean2, False, False)


def handles3_q1(sp: int, s0: int, q1: int, pack1: bool, clean1: bool, pack2: bool, clean2: bool) -> bool:
    """
    pre: 1 <= sp <= 70000 and 1 <= s0 <= 70000 and 0 <= q1 <= 5
    post: _
    """
    return _handles3(sp, s0, q1, 1, 1, pack1, clean1, pack2, clean2, False, False)


def handles3_q2(sp: int, s0: int, q1: int, pack1: bool, clean1: bool, pack2: bool, clean2: bool) -> bool:
    """
    pre: 1 <= sp <= 70000 and 1 <= s0 <= 70000 and 0 <= q1 <= 5
    post: _
    """
    return _handles3(sp, s0, q1, 2, 2, pack1, clean1, pack2, clean2, False, False)


def handles3_q3(sp: int, s0: int, q1: int, pack1: bool, clean1: bool, pack2: bool, clean2: bool) -> bool:
    """
    pre: 1 <= sp <= 70000 and 1 <= s0 <= 70000 and 0 <= q1 <= 5
    post: _
    """
    return _handles3(sp, s0, q1, 3, 3, pack1, clean1, pack2, clean2, False, False)


def handles3_q4(sp: int, s0: int, q1: int, pack1: bool, clean1: bool, pack2: bool, clean2: bool) -> bool:
    """
    pre: 1 <= sp <= 70000 and 1 <= s0 <= 70000 and 0 <= q1 <= 5
    post: _
    """
    return _handles3(sp, s0, q1, 4, 4, pack1, clean1, pack2, clean2, False, False)


def handles3_small_q0(sp: int, s0: int, q1: int, pack1: bool, clean1: bool, pack2: bool, clean2: bool) -> bool:
    """
    pre: 1 <= sp <= 70000 and 1 <= s0 <= 70000 and 0 <= q1 <= 5
    post: _
    """
    return _handles3(sp, s0, q1, 0, 0, pack1, clean1, pack2, clean2, True, False)


def handles3_small_q1(sp: int, s0: int, q1: int, pack1: bool, clean1: bool, pack2: bool, clean2: bool) -> bool:
    """
    pre: 1 <= sp <= 70000 and 1 <= s0 <= 70000 and 0 <= q1 <= 5
    post: _
    """
    return _handles3(sp, s0, q1, 1, 1, pack1, clean1, pack2, clean2, True, False)


def handles3_small_q2(sp: int, s0: int, q1: int, pack1: bool, clean1: bool, pack2: bool, clean2: bool) -> bool:
    """
    pre: 1 <= sp <= 70000 and 1 <= s0 <= 70000 and 0 <= q1 <= 5
    post: _
    """
    return _handles3(sp, s0, q1, 2, 2, pack1, clean1, pack2, clean2, True, False)


def handles3_small_q3(sp: int, s0: int, q1: int, pack1: bool, clean1: bool, pack2: bool, clean2: bool) -> bool:
    """
    pre: 1 <= sp <= 70000 and 1 <= s0 <= 70000 and 0 <= q1 <= 5
    post: _
    """
    return _handles3(sp, s0, q1, 3, 3, pack1, clean1, pack2, clean2, True, False)


def handles3_small_q4(sp: int, s0: int, q1: int, pack1: bool, clean1: bool, pack2: bool, clean2: bool) -> bool:
    """
    pre: 1 <= sp <= 70000 and 1 <= s0 <= 70000 and 0 <= q1 <= 5
    post: _
    """
    return _handles3(sp, s0, q1, 4, 4, pack1, clean1, pack2, clean2, True, False)


def handles3_creator_q0(sp: int, q1: int, maint1: bool, maint2: bool) -> bool:
    """
    (pack and clean go together in the creator cells; the first added object has 7 bytes)
    pre: 1 <= sp <= 70000 and 0 <= q1 <= 5
    post: _
    """
    return _handles3(sp, 7, q1, 0, 0, maint1, maint1, maint2, maint2, False, True)


def handles3_creator_q1(sp: int, q1: int, maint1: bool, maint2: bool) -> bool:
    """
    (pack and clean go together in the creator cells; the first added object has 7 bytes)
    pre: 1 <= sp <= 70000 and 0 <= q1 <= 5
    post: _
    """
    return _handles3(sp, 7, q1, 1, 1, maint1, maint1, maint2, maint2, False, True)


def handles3_creator_q2(sp: int, q1: int, maint1: bool, maint2: bool) -> bool:
    """
    (pack and clean go together in the creator cells; the first added object has 7 bytes)
    pre: 1 <= sp <= 70000 and 0 <= q1 <= 5
    post: _
    """
    return _handles3(sp, 7, q1, 2, 2, maint1, maint1, maint2, maint2, False, True)


def handles3_creator_q3(sp: int, q1: int, maint1: bool, maint2: bool) -> bool:
    """
    (pack and clean go together in the creator cells; the first added object has 7 bytes)
    pre: 1 <= sp <= 70000 and 0 <= q1 <= 5
    post: _
    """
    return _handles3(sp, 7, q1, 3, 3, maint1, maint1, maint2, maint2, False, True)


def handles3_creator_q4(sp: int, q1: int, maint1: bool, maint2: bool) -> bool:
    """
    (pack and clean go together in the creator cells; the first added object has 7 bytes)
    pre: 1 <= sp <= 70000 and 0 <= q1 <= 5
    post: _
    """
    return _handles3(sp, 7, q1, 4, 4, maint1, maint1, maint2, maint2, False, True)


def handles3_creator_small_q0(sp: int, q1: int, maint1: bool, maint2: bool) -> bool:
    """
    (pack and clean go together in the creator cells; the first added object has 7 bytes)
    pre: 1 <= sp <= 70000 and 0 <= q1 <= 5
    post: _
    """
    return _handles3(sp, 7, q1, 0, 0, maint1, maint1, maint2, maint2, True, True)


def handles3_creator_small_q1(sp: int, q1: int, maint1: bool, maint2: bool) -> bool:
    """
    (pack and clean go together in the creator cells; the first added object has 7 bytes)
    pre: 1 <= sp <= 70000 and 0 <= q1 <= 5
    post: _
    """
    return _handles3(sp, 7, q1, 1, 1, maint1, maint1, maint2, maint2, True, True)


def handles3_creator_small_q2(sp: int, q1: int, maint1: bool, maint2: bool) -> bool:
    """
    (pack and clean go together in the creator cells; the first added object has 7 bytes)
    pre: 1 <= sp <= 70000 and 0 <= q1 <= 5
    post: _
    """
    return _handles3(sp, 7, q1, 2, 2, maint1, maint1, maint2, maint2, True, True)


def handles3_creator_small_q3(sp: int, q1: int, maint1: bool, maint2: bool) -> bool:
    """
    (pack and clean go together in the creator cells; the first added object has 7 bytes)
    pre: 1 <= sp <= 70000 and 0 <= q1 <= 5
    post: _
    """
    return _handles3(sp, 7, q1, 3, 3, maint1, maint1, maint2, maint2, True, True)


def handles3_creator_small_q4(sp: int, q1: int, maint1: bool, maint2: bool) -> bool:
    """
    (pack and clean go together in the creator cells; the first added object has 7 bytes)
    pre: 1 <= sp <= 70000 and 0 <= q1 <= 5
    post: _
    """
    return _handles3(sp, 7, q1, 4, 4, maint1, maint1, maint2, maint2, True, True)


def _handles_clean(sp, s0, q1, vacuum, repack):
    """H (the maintenance handle) has queried the index; through another handle X (packed) is deleted and stored again as
    a loose object, Y is added; then H runs clean_storage [and repack]: every handle still sees X and Y."""
    w = make_world(10**9)
    try:
        w.set_pack(0, [('obj', 2, sp)])
        h, b = w.c, w.new_handle()
        if q1 < 5 and not _query(h, w, q1, [(2, sp)]):
            return False
        k2 = w.key(2, sp)
        if b.delete_objects([k2]) != [k2]:
            return False
        b.add_streamed_object(w.stream(2, sp))
        b.add_streamed_object(w.stream(0, s0))
        h.clean_storage(vacuum=vacuum)
        if repack:
            h.repack()
        pairs = [(2, sp), (0, s0)]
        ok = True
        for q in range(5):
            ok = ok and _query(h, w, q, pairs) and _query(b, w, q, pairs)
        c = w.new_handle()
        ok = ok and _query(c, w, 1, pairs) and _query(c, w, 3, pairs)
        c.close()
        b.close()
        return ok and inv_ok(w.image(), w, objs_map(w, pairs))
    finally:
        w.cleanup()


def handles_clean(sp: int, s0: int, q1: int, vacuum: bool, repack: bool) -> bool:
    """
    pre: 1 <= sp <= 70000 and 1 <= s0 <= 70000 and 0 <= q1 <= 5
    post: _
    """
    return _handles_clean(sp, s0, q1, vacuum, repack)
