"""One damage applied to a valid state: validate() must not be clean when some object is unreadable / reads back as
different bytes / disagrees with its recorded size (C12, no-false-negative half; uncompressed objects)."""
from harness.common import *  # noqa


def _seeking_read(c, k):
    """a reader that seeks from the end first (for a compressed object this goes through the re-loosened cache)"""
    with c.get_object_stream(k) as s:
        end = s.seek(0, 2)
        s.seek(0)
        data = s.read()
        return end, data


def _damage(what, kind, h0, s0, s1, s2, a, n, z2=False, both2=False, z=20):
    """pack 0 = hole + obj1 + obj2 (obj2 compressed iff z2, with an additional loose copy iff both2); obj0 loose."""
    w = make_world(10**9)
    try:
        w.set_zlen(2, s2, z)
        w.set_pack(0, [('junk', 0, h0), ('obj', 1, s1), ('zobj' if z2 else 'obj', 2, s2)])
        w.put_loose(0, s0)
        if both2:
            w.put_loose(2, s2)
        objs = objs_map(w, [(0, s0), (1, s1), (2, s2)])
        k0, k1, k2 = w.key(0, s0), w.key(1, s1), w.key(2, s2)
        if kind == 0:  # loose file replaced by junk of length n
            w.damage_loose(k0, n)
        elif kind == 6:  # the loose copy of the (also packed) obj2 replaced by junk of length n
            w.damage_loose(k2, n)
        elif kind == 7:  # `compressed` flag of obj2 flipped
            w.set_row(k2, 'compressed', not z2)
        elif kind == 8:  # pack_id of obj1 perturbed
            w.update_row(k1, 'pack_id', a)
        elif kind == 1:
            w.update_row(k1, 'offset', a)
        elif kind == 2:
            w.update_row(k1, 'length', a)
        elif kind == 3:
            w.update_row(k2, 'size', a)
        elif kind == 4:  # pack truncated at position a
            w.truncate_pack(0, a)
        else:  # n bytes at position a of the pack flipped
            w.damage_pack(0, a, n)
        bad = False
        for k in objs:
            i, size = objs[k]
            try:
                got = w.c.get_object_content(k)
                if not (got == w.content(i, size)):
                    bad = True
                meta = w.c.get_object_meta(k)
                if meta['size'] != size:
                    bad = True
                end, data = _seeking_read(w.c, k)
                if end != size or not (data == w.content(i, size)):
                    bad = True
            except Exception:
                bad = True
        if what == 'reach':
            return not bad
        if not bad:
            return True
        try:
            return not w.c.validate().is_valid()
        except Exception:
            return True  # fails loudly
    finally:
        w.cleanup()


def _damage_row2(h0, s0, s1, s2, a, field, z):
    """perturbation of a row field of the COMPRESSED obj2 (kinds 1..3 act on obj1/obj2 uncompressed)"""
    w = make_world(10**9)
    try:
        w.set_zlen(2, s2, z)
        w.set_pack(0, [('junk', 0, h0), ('obj', 1, s1), ('zobj', 2, s2)])
        w.put_loose(0, s0)
        objs = objs_map(w, [(0, s0), (1, s1), (2, s2)])
        k2 = w.key(2, s2)
        w.update_row(k2, ('offset', 'length', 'size')[field], a)
        bad = False
        for k in objs:
            i, size = objs[k]
            try:
                if not (w.c.get_object_content(k) == w.content(i, size)):
                    bad = True
                if w.c.get_object_meta(k)['size'] != size:
                    bad = True
            except Exception:
                bad = True
        if not bad:
            return True
        try:
            return not w.c.validate().is_valid()
        except Exception:
            return True
    finally:
        w.cleanup()


def damage_loose(h0: int, s0: int, s1: int, s2: int, n: int) -> bool:
    """
    pre: 0 <= h0 <= 2 and 1 <= s0 <= 70000 and 1 <= s1 <= 70000 and 1 <= s2 <= 70000
    pre: 0 <= n <= s0 + 2
    post: _
    """
    return _damage('check', 0, h0, s0, s1, s2, 0, n)


def damage_offset(h0: int, s0: int, s1: int, s2: int, a: int) -> bool:
    """
    pre: 0 <= h0 <= 2 and 1 <= s0 <= 70000 and 1 <= s1 <= 70000 and 1 <= s2 <= 70000
    pre: -70003 <= a <= 140003 and a != 0
    post: _
    """
    return _damage('check', 1, h0, s0, s1, s2, a, 0)


def damage_length(h0: int, s0: int, s1: int, s2: int, a: int) -> bool:
    """
    pre: 0 <= h0 <= 2 and 1 <= s0 <= 70000 and 1 <= s1 <= 70000 and 1 <= s2 <= 70000
    pre: -s1 <= a <= 70003 and a != 0
    post: _
    """
    return _damage('check', 2, h0, s0, s1, s2, a, 0)


def damage_size(h0: int, s0: int, s1: int, s2: int, a: int) -> bool:
    """
    pre: 0 <= h0 <= 2 and 1 <= s0 <= 70000 and 1 <= s1 <= 70000 and 1 <= s2 <= 70000
    pre: -s2 <= a <= 70003 and a != 0
    post: _
    """
    return _damage('check', 3, h0, s0, s1, s2, a, 0)


def damage_truncate(h0: int, s0: int, s1: int, s2: int, a: int) -> bool:
    """
    pre: 0 <= h0 <= 2 and 1 <= s0 <= 70000 and 1 <= s1 <= 70000 and 1 <= s2 <= 70000
    pre: 0 <= a < h0 + s1 + s2
    post: _
    """
    return _damage('check', 4, h0, s0, s1, s2, a, 0)


def damage_flip(h0: int, s0: int, s1: int, s2: int, a: int, n: int) -> bool:
    """
    pre: 0 <= h0 <= 2 and 1 <= s0 <= 70000 and 1 <= s1 <= 70000 and 1 <= s2 <= 70000
    pre: 0 <= a and 1 <= n and a + n <= h0 + s1 + s2
    post: _
    """
    return _damage('check', 5, h0, s0, s1, s2, a, n)


def damage_reach(h0: int, s0: int, s1: int, s2: int, a: int, n: int) -> bool:
    """
    Reachability twin: must be REFUTED (some flip makes an object read back wrong).

    pre: 0 <= h0 <= 2 and 1 <= s0 <= 70000 and 1 <= s1 <= 70000 and 1 <= s2 <= 70000
    pre: 0 <= a and 1 <= n and a + n <= h0 + s1 + s2
    post: _
    """
    return _damage('reach', 5, h0, s0, s1, s2, a, n)


def damage_zloose(h0: int, s0: int, s1: int, s2: int, n: int, z2: bool, z: int) -> bool:
    """
    obj2 is packed (compressed iff z2) AND loose; its loose copy is replaced by junk of length n.
    pre: 0 <= h0 <= 2 and 1 <= s0 <= 70000 and 1 <= s1 <= 70000 and 1 <= s2 <= 70000 and 2 <= z <= 70000
    pre: 0 <= n <= s2 + 2
    post: _
    """
    return _damage('check', 6, h0, s0, s1, s2, 0, n, z2, True, z)


def damage_zflag(h0: int, s0: int, s1: int, s2: int, z2: bool, z: int) -> bool:
    """
    the `compressed` flag of obj2's row is flipped.
    pre: 0 <= h0 <= 2 and 1 <= s0 <= 70000 and 1 <= s1 <= 70000 and 1 <= s2 <= 70000 and 2 <= z <= 70000
    post: _
    """
    return _damage('check', 7, h0, s0, s1, s2, 0, 0, z2, False, z)


def damage_zpack(h0: int, s0: int, s1: int, s2: int, a: int, n: int, z: int) -> bool:
    """
    a sub-range of the pack holding a compressed obj2 is flipped / the pack is truncated (n == 0).
    pre: 0 <= h0 <= 2 and 1 <= s0 <= 70000 and 1 <= s1 <= 70000 and 1 <= s2 <= 70000 and 2 <= z <= 70000
    pre: 0 <= a and 0 <= n and a + n <= h0 + s1 + z and a < h0 + s1 + z
    post: _
    """
    return _damage('check', 5 if n > 0 else 4, h0, s0, s1, s2, a, n, True, False, z)


def damage_zrow(h0: int, s0: int, s1: int, s2: int, a: int, field: int, z: int) -> bool:
    """
    offset / length / size of the row of a compressed obj2 perturbed by a.
    pre: 0 <= h0 <= 2 and 1 <= s0 <= 70000 and 1 <= s1 <= 70000 and 1 <= s2 <= 70000 and 2 <= z <= 70000
    pre: -70003 <= a <= 70003 and a != 0 and 0 <= field <= 2
    post: _
    """
    return _damage_row2(h0, s0, s1, s2, a, field, z)


def damage_packid(h0: int, s0: int, s1: int, s2: int, a: int) -> bool:
    """
    pack_id of obj1's row perturbed.
    pre: 0 <= h0 <= 2 and 1 <= s0 <= 70000 and 1 <= s1 <= 70000 and 1 <= s2 <= 70000
    pre: 1 <= a <= 3
    post: _
    """
    return _damage('check', 8, h0, s0, s1, s2, a, 0)


def _damage_multi(s1, s2, s3, which, a, n, z):
    """three packs of one object each (obj1 plain, obj2 compressed, obj3 plain); a sub-range of pack ``which`` is flipped"""
    w = make_world(10**9)
    try:
        w.set_zlen(2, s2, z)
        w.set_pack(0, [('obj', 1, s1)])
        w.set_pack(1, [('zobj', 2, s2)])
        w.set_pack(2, [('obj', 3, s3)])
        objs = objs_map(w, [(1, s1), (2, s2), (3, s3)])
        w.damage_pack(which, a, n)
        bad = False
        for k in objs:
            i, size = objs[k]
            try:
                if not (w.c.get_object_content(k) == w.content(i, size)):
                    bad = True
            except Exception:
                bad = True
        if not bad:
            return False  # every flip lies inside a referenced range here
        try:
            return not w.c.validate().is_valid()
        except Exception:
            return True
    finally:
        w.cleanup()


def damage_multi(s1: int, s2: int, s3: int, which: int, a: int, n: int, z: int) -> bool:
    """
    pre: 1 <= s1 <= 70000 and 1 <= s2 <= 70000 and 1 <= s3 <= 70000 and 2 <= z <= 70000 and 0 <= which <= 2
    pre: 0 <= a and 1 <= n
    pre: a + n <= (s1 if which == 0 else (z if which == 1 else s3))
    post: _
    """
    return _damage_multi(s1, s2, s3, which, a, n, z)
