"""One damage applied to a valid state: validate() must not be clean when some object is unreadable / reads back as
different bytes / disagrees with its recorded size (C12, no-false-negative half; uncompressed objects)."""
from harness.common import *  # noqa


def _damage(what, kind, h0, s0, s1, s2, a, n):
    w = make_world(10**9)
    try:
        w.set_pack(0, [('junk', 0, h0), ('obj', 1, s1), ('obj', 2, s2)])
        w.put_loose(0, s0)
        objs = objs_map(w, [(0, s0), (1, s1), (2, s2)])
        k0, k1, k2 = w.key(0, s0), w.key(1, s1), w.key(2, s2)
        if kind == 0:  # loose file replaced by junk of length n
            w.damage_loose(k0, n)
        elif kind == 1:
            w.update_row(k1, 'offset', a)
        elif kind == 2:
            w.update_row(k1, 'length', a)
        elif kind == 3:
            w.update_row(k2, 'size', a)
        elif kind == 4:  # pack truncated at position a
            w.truncate_pack(0, a)
        else:  # n bytes at position a of the pack flipped
            w.damage_pack(0, a, n)
        bad = False
        for k in objs:
            i, size = objs[k]
            try:
                got = w.c.get_object_content(k)
                if not (got == w.content(i, size)):
                    bad = True
                meta = w.c.get_object_meta(k)
                if meta['size'] != size:
                    bad = True
            except Exception:
                bad = True
        if what == 'reach':
            return not bad
        if not bad:
            return True
        try:
            return not w.c.validate().is_valid()
        except Exception:
            return True  # fails loudly
    finally:
        w.cleanup()


def damage_loose(h0: int, s0: int, s1: int, s2: int, n: int) -> bool:
    """
    pre: 0 <= h0 <= 2 and 1 <= s0 <= 70000 and 1 <= s1 <= 70000 and 1 <= s2 <= 70000
    pre: 0 <= n <= s0 + 2
    post: _
    """
    return _damage('check', 0, h0, s0, s1, s2, 0, n)


def damage_offset(h0: int, s0: int, s1: int, s2: int, a: int) -> bool:
    """
    pre: 0 <= h0 <= 2 and 1 <= s0 <= 70000 and 1 <= s1 <= 70000 and 1 <= s2 <= 70000
    pre: -70003 <= a <= 140003 and a != 0
    post: _
    """
    return _damage('check', 1, h0, s0, s1, s2, a, 0)


def damage_length(h0: int, s0: int, s1: int, s2: int, a: int) -> bool:
    """
    pre: 0 <= h0 <= 2 and 1 <= s0 <= 70000 and 1 <= s1 <= 70000 and 1 <= s2 <= 70000
    pre: -s1 <= a <= 70003 and a != 0
    post: _
    """
    return _damage('check', 2, h0, s0, s1, s2, a, 0)


def damage_size(h0: int, s0: int, s1: int, s2: int, a: int) -> bool:
    """
    pre: 0 <= h0 <= 2 and 1 <= s0 <= 70000 and 1 <= s1 <= 70000 and 1 <= s2 <= 70000
    pre: -s2 <= a <= 70003 and a != 0
    post: _
    """
    return _damage('check', 3, h0, s0, s1, s2, a, 0)


def damage_truncate(h0: int, s0: int, s1: int, s2: int, a: int) -> bool:
    """
    pre: 0 <= h0 <= 2 and 1 <= s0 <= 70000 and 1 <= s1 <= 70000 and 1 <= s2 <= 70000
    pre: 0 <= a < h0 + s1 + s2
    post: _
    """
    return _damage('check', 4, h0, s0, s1, s2, a, 0)


def damage_flip(h0: int, s0: int, s1: int, s2: int, a: int, n: int) -> bool:
    """
    pre: 0 <= h0 <= 2 and 1 <= s0 <= 70000 and 1 <= s1 <= 70000 and 1 <= s2 <= 70000
    pre: 0 <= a and 1 <= n and a + n <= h0 + s1 + s2
    post: _
    """
    return _damage('check', 5, h0, s0, s1, s2, a, n)


def damage_reach(h0: int, s0: int, s1: int, s2: int, a: int, n: int) -> bool:
    """
    Reachability twin: must be REFUTED (some flip makes an object read back wrong).

    pre: 0 <= h0 <= 2 and 1 <= s0 <= 70000 and 1 <= s1 <= 70000 and 1 <= s2 <= 70000
    pre: 0 <= a and 1 <= n and a + n <= h0 + s1 + s2
    post: _
    """
    return _damage('reach', 5, h0, s0, s1, s2, a, n)
