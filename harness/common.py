"""Oracles shared by the harnesses.  NO function here may carry a PEP316 contract (CrossHair would silently ignore paths
on which a nested postcondition fails)."""
from vf.world import Crash, make_world  # noqa: F401


def objs_map(w, pairs):
    """{key: (i, size)} for the listed (i, size) contents."""
    out = {}
    for i, size in pairs:
        out[w.key(i, size)] = (i, size)
    return out


def row_ok(w, r, pd, i, size):
    """the row designates exactly the stored form of object i: the recorded size is the content length; uncompressed:
    the range is the content and length == size; compressed: the range is a complete stream inflating to the content"""
    if r['size'] != size:
        return False
    stored = pd[r['offset'] : r['offset'] + r['length']]
    if r['compressed']:
        return w.inflates_to(stored, i, size)
    if r['length'] != size:
        return False
    return stored == w.content(i, size)


def inv_ok(img, w, objs, exact=True):
    """C03 + the key->bytes abstraction, evaluated library-free on an image (rows + byte slices only).

    Every object of ``objs`` is recoverable (complete loose file and/or index row designating exactly its bytes inside
    an existing pack), every *visible* copy of it is complete, no key is indexed twice, no two rows of a pack overlap;
    with ``exact`` no other key is visible.
    """
    rows = img.rows()
    for a in range(len(rows)):
        ra = rows[a]
        if ra['offset'] < 0 or ra['length'] < 0:
            return False
        for b in range(a + 1, len(rows)):
            rb = rows[b]
            if ra['hashkey'] == rb['hashkey']:
                return False
            if ra['pack_id'] == rb['pack_id']:
                if ra['offset'] < rb['offset'] + rb['length'] and rb['offset'] < ra['offset'] + ra['length']:
                    return False
    for key in objs:
        i, size = objs[key]
        want = w.content(i, size)
        found = False
        ld = img.loose_data(key)
        if ld is not None:
            if not (ld == want):
                return False
            found = True
        for r in rows:
            if r['hashkey'] == key:
                pd = img.pack_data(r['pack_id'])
                if pd is None:
                    return False
                if r['offset'] + r['length'] > len(pd):
                    return False
                if not row_ok(w, r, pd, i, size):
                    return False
                found = True
        if not found:
            return False
    if exact:
        for r in rows:
            if r['hashkey'] not in objs:
                return False
        for k in img.loose_keys():
            if k not in objs:
                return False
    return True


def visible_complete(img, w, objs):
    """Every *visible* key of ``objs`` (loose file or row) designates complete, right bytes (absent is fine)."""
    rows = img.rows()
    for key in objs:
        i, size = objs[key]
        want = w.content(i, size)
        ld = img.loose_data(key)
        if ld is not None and not (ld == want):
            return False
        for r in rows:
            if r['hashkey'] == key:
                pd = img.pack_data(r['pack_id'])
                if pd is None or r['offset'] + r['length'] > len(pd):
                    return False
                if not row_ok(w, r, pd, i, size):
                    return False
    return True


def views_ok(c, w, objs, absent_key):
    """C02: every view of the container equals the key->bytes map ``objs`` (through the real read functions)."""
    keys = list(objs)
    if c.has_objects(keys + [absent_key]) != [True] * len(keys) + [False]:
        return False
    out = c.get_objects_content(keys + [absent_key], skip_if_missing=False)
    if len(out) != len(keys) + 1 or out[absent_key] is not None:
        return False
    for k in keys:
        i, size = objs[k]
        if not (out[k] == w.content(i, size)):
            return False
        if not (c.get_object_content(k) == w.content(i, size)):
            return False
    metas = dict(c.get_objects_meta(keys, skip_if_missing=False))
    for k in keys:
        if metas[k].size != objs[k][1]:
            return False
    listed = sorted(c.list_all_objects())
    if listed != sorted(keys):
        return False
    cnt = c.count_objects()
    if cnt.packed + cnt.loose < len(keys):
        return False
    return True


def layout_ok(before, after, target, repacked=False):
    """C13: packs only grow at their end, ids consecutive from 0, all but the highest reached the target."""
    ids = after.pack_ids()
    if ids != list(range(len(ids))):
        return False
    for n, pid in enumerate(ids):
        pa = after.pack_data(pid)
        pb = before.pack_data(pid) if pid in before.pack_ids() else None
        if pb is not None:
            if len(pa) < len(pb):
                return False
            if not (pa[: len(pb)] == pb):
                return False
        if n < len(ids) - 1 and len(pa) < target:
            return False
    return True


def chunked_ok(c, w, objs):
    """C01 "in chunks": read(1), read(65536), read() on the stream of every object, singly and through the bulk API"""
    for k in objs:
        i, size = objs[k]
        want = w.content(i, size)
        with c.get_object_stream_and_meta(k) as (s, meta):
            if meta.size != size:
                return False
            a = s.read(1)
            b = s.read(65536)
            rest = s.read()
            if not (a == want[:1]) or not (b == want[1:65537]) or not (rest == want[65537:]):
                return False
            if not (s.read(10) == want[size:]):
                return False
    with c.get_objects_stream_and_meta(list(objs)) as triplets:
        n = 0
        for k, s, meta in triplets:
            i, size = objs[k]
            n += 1
            if not (s.read(65536) == w.content(i, size)[:65536]):
                return False
        if n != len(objs):
            return False
    return True
