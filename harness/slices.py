"""Crash/fault index slices per (kind, operation): shared by harness/gen.py and vf/registry.py."""
OPS = ('pack', 'pack_clean', 'direct', 'direct_noholes', 'loose', 'loose_damaged', 'pack_pending', 'delete', 'repack', 'import', 'pack_nofsync', 'direct_nofsync')
NOFSYNC = ('pack_nofsync', 'direct_nofsync')  # not part of C06 (default fsync settings only)
WIDE = ((1, 12), (13, 24), (25, 36), (37, 50))
NARROW = ((1, 6), (7, 12), (13, 18), (19, 24), (25, 30), (31, 36), (37, 50))
LAST = 50


def kinds_for(op):
    return ('kill', 'fault') if op in NOFSYNC else ('kill', 'power', 'fault')


def slices_for(kind, op):
    # the fault cells run the operation twice (fault, then rerun); direct-to-pack forks most
    if kind == 'fault' and op in ('direct', 'direct_noholes', 'pack', 'pack_clean', 'import', 'direct_nofsync', 'pack_nofsync', 'pack_pending'):
        return NARROW
    return WIDE
