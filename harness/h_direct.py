"""add_streamed_objects_to_pack / add_streamed_object from a symbolic pre-state: C01 C02 C03 C09 C13."""
from harness.common import *  # noqa

ABSENT = 'b' * 64


def _direct(what, h0, s0, s1, s2, pos, target, no_holes, read_twice, cut=0):
    """pack 0 already holds obj0 (after a hole); the batch is [obj1, obj2] with a duplicate inserted at ``pos``:
    pos 0..2 -> obj0 (already packed) at that position; pos 3 -> obj1 a second time at the end."""
    w = make_world(target)
    try:
        w.set_next_id(2001)  # primary keys are sparse in a container that has seen deletions
        w.set_pack(0, [('junk', 0, h0), ('obj', 0, s0)])
        batch = [(1, s1), (2, s2)]
        if pos <= 2:
            batch.insert(pos, (0, s0))
        else:
            batch.append((1, s1))
        objs = objs_map(w, [(0, s0), (1, s1), (2, s2)])
        before = w.image()
        streams = [w.stream(i, s, cut if i == 2 else 0) for i, s in batch]
        keys = w.c.add_streamed_objects_to_pack(streams, no_holes=no_holes, no_holes_read_twice=read_twice)
        if keys != [w.key(i, s) for i, s in batch]:
            return False
        if what == 'views':
            if not views_ok(w.c, w, objs, ABSENT):
                return False
            w.c.close()
            return w.open_fds(True) == 0
        after = w.image()
        if what == 'reach':
            return len(after.pack_ids()) < 2
        if not inv_ok(after, w, objs) or not layout_ok(before, after, target):
            return False
        if len(after.rows()) != len(objs):
            return False
        if no_holes:
            # C09: known content leaves no unreferenced bytes behind and does not grow the pack
            total = 0
            for pid in after.pack_ids():
                total = total + len(after.pack_data(pid))
            want = h0
            for r in after.rows():
                want = want + r['length']
            if total != want:
                return False
        w.c.close()
        return w.open_fds(True) == 0
    finally:
        w.cleanup()


def _loose(what, s0, s1, form, damaged, cut=0):
    """obj0 is already stored (form 0: loose, 1: packed, 2: both); add obj0 again and a new obj1 as loose objects.
    ``damaged``: the existing loose copy of obj0 holds junk of the same length (form 0 or 2)."""
    w = make_world(10**9)
    try:
        if form >= 1:
            w.set_pack(0, [('obj', 0, s0)])
        if form != 1:
            w.put_loose(0, s0)
            if damaged:
                w.damage_loose(w.key(0, s0), s0)
        objs = objs_map(w, [(0, s0), (1, s1)])
        k0 = w.c.add_object(w.content(0, s0))  # the from-bytes path (io.BytesIO wrapper)
        k1 = w.c.add_streamed_object(w.stream(1, s1, cut))
        if k0 != w.key(0, s0) or k1 != w.key(1, s1):
            return False
        if what == 'views':
            if not views_ok(w.c, w, objs, ABSENT):
                return False
            w.c.close()
            return w.open_fds(True) == 0
        after = w.image()
        if not inv_ok(after, w, objs):
            return False
        if len(after.rows()) != (1 if form >= 1 else 0):
            return False
        if sorted(after.loose_keys()) != sorted(set([k1] + ([k0] if form != 1 else [k0]))):
            pass
        w.c.close()
        return w.open_fds(True) == 0
    finally:
        w.cleanup()


def loose_inv(s0: int, s1: int, form: int, damaged: bool, cut: int) -> bool:
    """
    cut: the input stream of the new object returns a short count (at most cut bytes) at its first read; 0 = never.
    pre: 0 <= s0 <= 140000 and 1 <= s1 <= 140000 and 0 <= form <= 2 and 0 <= cut <= 140000
    post: _
    """
    return _loose('inv', s0, s1, form, damaged, cut)


def loose_views(s0: int, s1: int, form: int, damaged: bool, cut: int) -> bool:
    """
    pre: 0 <= s0 <= 140000 and 1 <= s1 <= 140000 and 0 <= form <= 2 and 0 <= cut <= 140000
    post: _
    """
    return _loose('views', s0, s1, form, damaged, cut)


def loose_inv_big(s0: int, form: int, damaged: bool) -> bool:
    """
    Known content of up to 6 MiB re-added while its loose copy may be damaged (same length).
    pre: 140000 <= s0 <= 6300000 and 0 <= form <= 2
    post: _
    """
    return _loose('inv', s0, 7, form, damaged, 0)


def _single(h0, s0, s1, target, no_holes, read_twice, compress, cb):
    """the single-object wrapper add_streamed_object_to_pack (stream wrapped in CallbackStreamWrapper): known content
    (obj0, already packed) and new content (obj1), every option forwarded"""
    w = make_world(target)
    try:
        w.set_zlen(1, s1, 5)
        w.set_pack(0, [('junk', 0, h0), ('obj', 0, s0)])
        objs = objs_map(w, [(0, s0), (1, s1)])
        before = w.image()
        callback = (lambda action, value: None) if cb else None  # a progress callback must not change any result
        k0 = w.c.add_streamed_object_to_pack(w.stream(0, s0), compress=compress, no_holes=no_holes,
                                             no_holes_read_twice=read_twice, callback=callback)
        k1 = w.c.add_streamed_object_to_pack(w.stream(1, s1), compress=compress, no_holes=no_holes,
                                             no_holes_read_twice=read_twice, callback=callback)
        if k0 != w.key(0, s0) or k1 != w.key(1, s1):
            return False
        after = w.image()
        if not inv_ok(after, w, objs) or not layout_ok(before, after, target) or len(after.rows()) != 2:
            return False
        for r in after.rows():
            if r['hashkey'] == k1 and bool(r['compressed']) != compress:
                return False
        if no_holes:  # known content leaves nothing behind
            total = 0
            for pid in after.pack_ids():
                total = total + len(after.pack_data(pid))
            want = h0
            for r in after.rows():
                want = want + r['length']
            if total != want:
                return False
        return views_ok(w.c, w, objs, ABSENT)
    finally:
        w.cleanup()


def single_pack(s0: int, s1: int, target: int, no_holes: bool, read_twice: bool, compress: bool, cb: bool) -> bool:
    """
    pre: 1 <= s0 <= 70000 and 1 <= s1 <= 70000 and 1 <= target <= 140010
    post: _
    """
    return _single(1, s0, s1, target, no_holes, read_twice, compress, cb)


def direct_short(s1: int, s2: int, cut: int, target: int, no_holes: bool, read_twice: bool) -> bool:
    """
    Direct to pack from an input stream whose first read returns a short count (at most cut bytes; the io.RawIOBase
    contract): obj2's stream is short, a duplicate of the packed obj0 sits in the middle of the batch.
    pre: 1 <= s1 <= 100 and 1 <= s2 <= 70000 and 1 <= cut <= 70000 and 1 <= target <= 70200
    post: _
    """
    return _direct('inv', 1, 3, s1, s2, 1, target, no_holes, read_twice, cut) and \
        _direct('views', 1, 3, s1, s2, 1, target, no_holes, read_twice, cut)
