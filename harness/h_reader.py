"""PackedObjectReader: bounded programs of read/seek/tell over an object with neighbours in the same pack (C07)."""
import io
import os
import tempfile

import vf.world as W
from disk_objectstore.utils import PackedObjectReader


class Rng:
    """abstract bytes of the model pack: the contiguous range [lo, hi) of the backing file"""

    def __init__(self, lo, hi):
        self.lo, self.hi = lo, hi

    def __len__(self):
        return self.hi - self.lo


class ModelFile:
    mode = 'rb'
    closed = False

    def __init__(self, size):
        self.size = size
        self.pos = 0

    def seek(self, target, whence=0):
        if whence == 1:
            target = self.pos + target
        elif whence == 2:
            target = self.size + target
        if target < 0:
            raise OSError(22, 'Invalid argument')
        self.pos = target
        return self.pos

    def tell(self):
        return self.pos

    def read(self, n=-1):
        if n is None or n < 0:
            n = max(0, self.size - self.pos)
        n = min(n, max(0, self.size - self.pos))
        r = Rng(self.pos, self.pos + n)
        self.pos += n
        return r

    def same(self, got, lo, hi):
        return isinstance(got, Rng) and ((len(got) == 0 and hi == lo) or (got.lo == lo and got.hi == hi))

    def close(self):
        pass


class RealFile:
    def __init__(self, size):
        fd, self.path = tempfile.mkstemp(prefix='vf-pack-', dir=os.environ.get('VF_SCRATCH') or None)
        self.data = bytes((i * 7 + 3) % 251 for i in range(size))
        with os.fdopen(fd, 'wb') as f:
            f.write(self.data)
        self.f = io.open(self.path, 'rb')

    def same(self, got, lo, hi):
        return got == self.data[lo:hi]

    def close(self):
        self.f.close()
        os.remove(self.path)


def _ref_step(pos, length, op, arg):
    """io.BytesIO semantics on an object of the given length: (new position, expected result)"""
    if op == 0:  # read(arg)
        n = arg if arg >= 0 else length - pos
        n = min(n, max(0, length - pos))
        return pos + n, (pos, pos + n)
    if op == 1:  # tell
        return pos, pos
    if op == 2:
        return arg, arg
    if op == 3:
        return pos + arg, pos + arg
    return length + arg, length + arg


def _program(pack_size, offset, length, prog, wrap=False):
    mf = ModelFile(pack_size) if W.MODE == 'model' else RealFile(pack_size)
    try:
        fh = mf if W.MODE == 'model' else mf.f
        r = PackedObjectReader(fh, offset, length)
        if wrap:  # the progress-callback wrapper must be transparent
            from disk_objectstore.utils import CallbackStreamWrapper

            r = CallbackStreamWrapper(r, callback=lambda action, value: None, total_length=0)
        pos = 0
        for op, a in prog:
            npos, exp = _ref_step(pos, length, op, a)
            in_range = 0 <= npos <= length
            try:
                if op == 0:
                    got = r.read(a)
                    if not mf.same(got, offset + exp[0], offset + exp[1]):
                        return False
                elif op == 1:
                    if r.tell() != exp:
                        return False
                else:
                    got = r.seek(a, op - 2)
                    if in_range:
                        if got != exp or r.tell() != exp:
                            return False
                    else:
                        npos = r.tell()  # clamped: wherever it says it is, it must be inside the object
                        if not 0 <= npos <= length:
                            return False
            except (ValueError, OSError, AssertionError):
                if in_range:
                    return False
                npos = pos  # rejected: the position must be unchanged
                if r.tell() != pos:
                    return False
            pos = npos
        return True
    finally:
        mf.close()


def prog2(pack_size: int, offset: int, length: int, op1: int, a1: int, op2: int, a2: int) -> bool:
    """
    pre: 0 <= offset and 0 <= length and offset + length <= pack_size <= 2000000
    pre: 0 <= op1 <= 4 and 0 <= op2 <= 4 and -2000100 <= a1 <= 2000100 and -2000100 <= a2 <= 2000100
    post: _
    """
    return _program(pack_size, offset, length, ((op1, a1), (op2, a2)))


def prog3(pack_size: int, offset: int, length: int, op1: int, a1: int, op2: int, a2: int, op3: int, a3: int) -> bool:
    """
    pre: 0 <= offset and 0 <= length and offset + length <= pack_size <= 2000000
    pre: 0 <= op1 <= 4 and 0 <= op2 <= 4 and 0 <= op3 <= 4
    pre: -2000100 <= a1 <= 2000100 and -2000100 <= a2 <= 2000100 and -2000100 <= a3 <= 2000100
    post: _
    """
    return _program(pack_size, offset, length, ((op1, a1), (op2, a2), (op3, a3)))


def prog_reach(pack_size: int, offset: int, length: int, op1: int, a1: int, op2: int, a2: int) -> bool:
    """
    Reachability twin: must be REFUTED (a whence=2 seek followed by a non-empty read is reachable).

    pre: 0 <= offset and 0 <= length and offset + length <= pack_size <= 2000000
    pre: 0 <= op1 <= 4 and 0 <= op2 <= 4 and -2000100 <= a1 <= 2000100 and -2000100 <= a2 <= 2000100
    post: _
    """
    ok = _program(pack_size, offset, length, ((op1, a1), (op2, a2)))
    return not (ok and op1 == 4 and op2 == 0 and a1 < 0 and 0 <= length + a1 < length and a2 > 0)


def cbprog2(pack_size: int, offset: int, length: int, op1: int, a1: int, op2: int, a2: int) -> bool:
    """
    The same programs through CallbackStreamWrapper (the stream handed to the write paths when a progress callback is
    given): it must be transparent.
    pre: 0 <= offset and 0 <= length and offset + length <= pack_size <= 2000000
    pre: 0 <= op1 <= 4 and 0 <= op2 <= 4 and -2000100 <= a1 <= 2000100 and -2000100 <= a2 <= 2000100
    post: _
    """
    return _program(pack_size, offset, length, ((op1, a1), (op2, a2)), True)
