"""pack_all_loose (+ clean_storage) from a symbolic pre-state: C01 C02 C03 C12a C13 C18."""
from harness.common import *  # noqa

ABSENT = 'b' * 64


def _scenario(what, h0, sp, h1, s0, s1, target, clean):
    w = make_world(target)
    try:
        w.set_pack(0, [('junk', 0, h0), ('obj', 2, sp), ('junk', 1, h1)])
        w.put_loose(0, s0)
        w.put_loose(1, s1)
        objs = objs_map(w, [(0, s0), (1, s1), (2, sp)])
        before = w.image() if what in ('inv', 'reach') else None
        base = w.open_fds()
        w.c.pack_all_loose(clean_loose_per_pack=clean)
        if what == 'views':
            w.reset_max_open()
            if not views_ok(w.c, w, objs, ABSENT):
                return False
            if w.max_open() > 1:  # C18: bulk reads keep at most one pack or loose file open at a time
                return False
            w.c.close()
            return w.open_fds(True) == 0  # C18: nothing (index connections included) stays open after close()
        if what == 'validate':
            if not w.c.validate().is_valid():
                return False
            w.c.clean_storage()
            final = w.image()
            return len(final.loose_keys()) == 0 and inv_ok(final, w, objs)
        after = w.image()
        if what == 'reach':
            return len(after.pack_ids()) < 2
        if w.open_fds() > base:
            return False
        if not inv_ok(after, w, objs) or not layout_ok(before, after, target):
            return False
        if len(after.rows()) != len(objs):
            return False
        if clean and len(after.loose_keys()) != 0:
            return False
        w.c.close()
        return w.open_fds(True) == 0
    finally:
        w.cleanup()
