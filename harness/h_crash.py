"""Crash (kill / power loss) and single I/O fault at a symbolic point of an operation: C05 C06 C17."""
from harness.common import *  # noqa


def _setup(w, op, h0, sp, s0, s1):
    """-> (pre, new, deleted, run): objects that must survive, objects being added, keys being deleted, the operation."""
    if op != 'repack':
        w.set_pack(0, [('junk', 0, h0), ('obj', 2, sp), ('junk', 1, 1)])
    pre, new, deleted = [(2, sp)], [], []
    if op in ('pack', 'pack_clean'):
        w.put_loose(0, s0)
        w.put_loose(1, s1)
        pre += [(0, s0), (1, s1)]

        def run(c):
            c.pack_all_loose(clean_loose_per_pack=(op == 'pack_clean'))
            c.clean_storage()

    elif op in ('direct', 'direct_noholes'):
        new = [(0, s0), (1, s1)]

        def run(c):
            c.add_streamed_objects_to_pack(
                [w.stream(0, s0), w.stream(2, sp), w.stream(1, s1)],
                no_holes=(op == 'direct_noholes'),
                no_holes_read_twice=False,
            )

    elif op == 'loose':
        w.put_loose(0, s0)
        pre += [(0, s0)]
        new = [(1, s1)]

        def run(c):
            c.add_streamed_object(w.stream(1, s1))
            c.add_streamed_object(w.stream(0, s0))

    elif op == 'loose_damaged':  # the existing loose copy of obj0 is corrupt: re-adding obj0 replaces it
        w.put_loose(0, s0)
        w.damage_loose(w.key(0, s0), s0)
        pre = [(2, sp)]
        new = [(0, s0), (1, s1)]

        def run(c):
            c.add_streamed_object(w.stream(0, s0))
            c.add_streamed_object(w.stream(1, s1))

    elif op == 'pack_pending':  # obj0 is loose AND was just written to a pack by the same handle with do_commit=False
        w.put_loose(0, s0)
        w.put_loose(1, s1)
        pre += [(0, s0), (1, s1)]

        def run(c):
            c.add_streamed_objects_to_pack([w.stream(0, s0)], do_commit=False)
            c.pack_all_loose(clean_loose_per_pack=True)
            c.clean_storage()

    elif op == 'delete':  # obj0 loose is deleted, obj2 (packed) too; obj1 (loose) and obj3 (packed) stay
        w.put_loose(0, s0)
        w.put_loose(1, s1)
        pre = [(1, s1)]
        deleted = [(0, s0), (2, sp)]

        def run(c):
            c.delete_objects([w.key(0, s0), w.key(2, sp)])

    elif op == 'repack':  # pack 0 = hole, obj2, hole, obj0; obj1 loose
        w.set_pack(0, [('junk', 0, h0), ('obj', 2, sp), ('junk', 1, 1), ('obj', 0, s0)])
        w.put_loose(1, s1)
        pre = [(2, sp), (0, s0), (1, s1)]

        def run(c):
            c.repack()

    elif op in ('pack_nofsync', 'direct_nofsync'):  # do_fsync=False: process-crash safety must not depend on the sync
        if op == 'pack_nofsync':
            w.put_loose(0, s0)
            w.put_loose(1, s1)
            pre += [(0, s0), (1, s1)]

            def run(c):
                c.pack_all_loose(do_fsync=False)

        else:
            new = [(0, s0), (1, s1)]

            def run(c):
                c.add_streamed_objects_to_pack([w.stream(0, s0), w.stream(2, sp), w.stream(1, s1)], do_fsync=False)

    else:  # import: obj0 loose and obj1 packed in a second container; the destination holds obj2
        src = make_world(10**9, parent=w, name='src')
        src.put_loose(0, s0)
        src.set_pack(0, [('junk', 0, 1), ('obj', 1, s1)])
        w.src = src
        new = [(0, s0), (1, s1)]

        def run(c):
            c.import_objects([src.key(0, s0), src.key(1, s1), w.key(2, sp)], src.c)

    return pre, new, deleted, run


def _image_ok(img, w, pre, new, deleted, op=None):
    if op == 'loose_damaged':
        # obj0's loose copy was corrupt before the operation (not the library's doing): at every instant its key holds
        # either that same junk, untouched, or the complete right bytes -- never a partial or unsynced replacement
        new = list(new)
        i, size = new.pop(0)
        ld = img.loose_data(w.key(i, size))
        if ld is None or not (ld == w.content(i, size) or ld == w.junk(9, size)):
            return False
        allowed = objs_map(w, pre + new + deleted + [(i, size)])
        for r in img.rows():
            if r['hashkey'] not in allowed:
                return False
        for k in img.loose_keys():
            if k not in allowed:
                return False
        return inv_ok(img, w, objs_map(w, pre), exact=False) and visible_complete(img, w, objs_map(w, new + deleted))
    allowed = objs_map(w, pre + new + deleted)
    for r in img.rows():
        if r['hashkey'] not in allowed:
            return False
    for k in img.loose_keys():
        if k not in allowed:
            return False
    return inv_ok(img, w, objs_map(w, pre), exact=False) and visible_complete(img, w, objs_map(w, new + deleted))


def _fresh_reads_ok(w, img, op, pre, new):
    """C05, second sentence: a NEW handle on the image never returns wrong bytes -- right bytes for everything stored
    before; for objects being added right bytes or NotExistent; after an interrupted repack a loud failure is allowed"""
    h = w.mount_image(img)
    try:
        for i, size in pre + new:
            key = w.key(i, size)
            try:
                got = h.get_object_content(key)
            except w.C.NotExistent:
                if (i, size) in pre and op != 'repack':
                    return False
                continue
            except (AssertionError, ValueError, OSError):
                if op != 'repack':
                    return False
                continue
            if not (got == w.content(i, size)):
                return False
        if op == 'repack':
            # the next maintenance run on the crashed container: repack again (it may refuse); whatever it does, every
            # object is still where the index says
            try:
                h.repack()
            except (AssertionError, OSError, ValueError):
                pass
            if not inv_ok(w.image_of(h), w, objs_map(w, pre), exact=False):
                return False
        return True
    finally:
        h.close()


def _crash(op, durable, h0, sp, s0, s1, target, crash_at):
    w = make_world(target)
    try:
        pre, new, deleted, run = _setup(w, op, h0, sp, s0, s1)
        w.install_crash(crash_at, durable)
        try:
            run(w.c)
        except Crash:
            pass
        if not w.box:
            return True  # the operation ended before the crash point
        if not _image_ok(w.box[0], w, pre, new, deleted, op):
            return False
        return durable or op == 'loose_damaged' or _fresh_reads_ok(w, w.box[0], op, pre, new)
    finally:
        if getattr(w, 'src', None) is not None:
            w.src.cleanup()
        w.cleanup()


def _reached(op, h0, sp, s0, s1, target, crash_at):
    """Reachability twin body: True iff NO image was photographed (the twin must be REFUTED)."""
    w = make_world(target)
    try:
        pre, new, deleted, run = _setup(w, op, h0, sp, s0, s1)
        w.install_crash(crash_at, False)
        try:
            run(w.c)
        except Crash:
            pass
        return len(w.box) == 0
    finally:
        if getattr(w, 'src', None) is not None:
            w.src.cleanup()
        w.cleanup()


def _gpacker(op, h0, sp, s0, s1, target):
    """C04, the packer's guarantee to concurrent readers: a row is committed only when its bytes are already visible in
    the pack file (flushed), and a loose file is unlinked only when a committed row with visible bytes replaces it."""
    w = make_world(target)
    try:
        pre, new, deleted, run = _setup(w, op, h0, sp, s0, s1)
        w.install_commit_monitor(durable=False)
        run(w.c)
        w.finish_monitor()
        return w.monitor_ok
    finally:
        if getattr(w, 'src', None) is not None:
            w.src.cleanup()
        w.cleanup()


def _monitor(op, h0, sp, s0, s1, target):
    """C06 ordering monitor: every index commit only publishes rows whose bytes are already durable; every unlink of a
    loose file happens only when a committed row on durable bytes replaces it."""
    w = make_world(target)
    try:
        pre, new, deleted, run = _setup(w, op, h0, sp, s0, s1)
        w.install_commit_monitor()
        run(w.c)
        w.finish_monitor()
        return w.monitor_ok
    finally:
        if getattr(w, 'src', None) is not None:
            w.src.cleanup()
        w.cleanup()


def _fault(op, h0, sp, s0, s1, target, fault_at):
    w = make_world(target)
    try:
        pre, new, deleted, run = _setup(w, op, h0, sp, s0, s1)
        w.install_fault(fault_at)
        try:
            run(w.c)
        except OSError:
            pass
        w.install_fault(-1)
        if not _image_ok(w.image(), w, pre, new, deleted, op):
            return False
        if op == 'repack':
            return True  # an interrupted repack needs manual repair: no rerun is demanded (C17)
        # once the fault clears: stale lock removed, a new handle reruns the operation to its normal result
        w.c.close()
        w.remove_locks()
        c2 = w.new_handle()
        run(c2)
        return inv_ok(w.image(), w, objs_map(w, pre + new), exact=True)
    finally:
        if getattr(w, 'src', None) is not None:
            w.src.cleanup()
        w.cleanup()


def _perm(op, h0, sp, s0, s1, target, at):
    """C17 with the one error the packer handles specially: the at-th opening of a file for reading fails with
    PermissionError (a file locked by another process).  The operation completes or raises; nothing stored before is
    lost; a rerun on a new handle reaches the normal result."""
    w = make_world(target)
    try:
        pre, new, deleted, run = _setup(w, op, h0, sp, s0, s1)
        w.install_perm_fault(at)
        try:
            run(w.c)
        except OSError:
            pass
        w.install_perm_fault(-1)
        if not _image_ok(w.image(), w, pre, new, deleted, op):
            return False
        if op == 'repack':
            return True  # an interrupted repack needs manual repair
        w.c.close()
        w.remove_locks()
        c2 = w.new_handle()
        run(c2)
        return inv_ok(w.image(), w, objs_map(w, pre + new), exact=True)
    finally:
        if getattr(w, 'src', None) is not None:
            w.src.cleanup()
        w.cleanup()


from harness.slices import OPS  # noqa: E402,F401


def _steps(op, h0, sp, s0, s1, target):
    """Number of I/O-relevant steps of the operation in the current world."""
    w = make_world(target)
    try:
        pre, new, deleted, run = _setup(w, op, h0, sp, s0, s1)
        w.install_crash(10**9, False)
        run(w.c)
        return w.fs.step if w.kind == 'model' else w.step
    finally:
        if getattr(w, 'src', None) is not None:
            w.src.cleanup()
        w.cleanup()
