"""delete_objects then repack from a symbolic state (C11; C02 for delete/repack)."""
from harness.common import *  # noqa

ABSENT = 'b' * 64


def _delete(what, h0, s0, s1, s2, s3, d0, d1, d2, d3, dabs, do_repack, in_max=950, z2=False, z3=False, zl=20, direct=False):
    """obj0 loose; obj1 loose and packed; obj2, obj3 packed (pack 0 = hole, obj1, obj2, obj3); obj2/obj3 stored
    compressed iff z2/z3 (compressed length zl); ``in_max`` = the SQL IN-batch size (symbolic small, so that the request
    is split into several chunks); ``direct``: repack_pack('0') on its own, then a NEW handle answers the views."""
    w = make_world(10**9)
    try:
        w.set_zlen(2, s2, zl)
        w.set_zlen(3, s3, zl)
        w.set_pack(0, [('junk', 0, h0), ('obj', 1, s1), ('zobj' if z2 else 'obj', 2, s2), ('zobj' if z3 else 'obj', 3, s3)])
        w.put_loose(0, s0)
        w.put_loose(1, s1)
        w.c._IN_SQL_MAX_LENGTH = in_max
        sizes = [s0, s1, s2, s3]
        flags = [d0, d1, d2, d3]
        req = [w.key(i, sizes[i]) for i in range(4) if flags[i]]
        if dabs:
            req = [ABSENT] + req
        got = w.c.delete_objects(req)
        if sorted(got) != sorted(k for k in req if k != ABSENT):
            return False
        live = [(i, sizes[i]) for i in range(4) if not flags[i]]
        objs = objs_map(w, live)
        after = w.image()
        if not inv_ok(after, w, objs):
            return False
        if what == 'views' or not do_repack:
            return views_ok(w.c, w, objs, ABSENT)
        if direct:
            if len(after.pack_ids()):
                w.c.repack_pack('0')
            w.c.close()
            w.c = w.new_handle()
        else:
            w.c.repack()
        final = w.image()
        if what == 'reach':
            return len(final.pack_ids()) > 0
        if not inv_ok(final, w, objs):
            return False
        # each pack file equals the concatenation of its live objects' stored bytes; packs without live objects are gone
        rows = final.rows()
        for pid in final.pack_ids():
            total = 0
            n = 0
            for r in rows:
                if r['pack_id'] == pid:
                    total = total + r['length']
                    n += 1
            if n == 0 or len(final.pack_data(pid)) != total:
                return False
        for r in rows:
            if r['pack_id'] not in final.pack_ids():
                return False
        return views_ok(w.c, w, objs, ABSENT)
    finally:
        w.cleanup()


def delete_chunks(s0: int, s2: int, d0: bool, d1: bool, d2: bool, d3: bool, in_max: int) -> bool:
    """
    delete_objects with the request (incl. an absent key) split into SQL IN-chunks of in_max keys; obj2 compressed, obj3
    the EMPTY object stored plain (a pack may be left holding nothing but zero-length objects); then repack.
    pre: 1 <= s0 <= 70000 and 1 <= s2 <= 70000 and 1 <= in_max <= 3
    post: _
    """
    return _delete('inv', 1, s0, 7, s2, 0, d0, d1, d2, d3, True, True, in_max, True, False, 5)


def delete_repack_pack(s0: int, s2: int, d0: bool, d1: bool, d2: bool, d3: bool, in_max: int) -> bool:
    """
    as delete_chunks, but repack_pack('0') is called on its own and the views are answered by a new handle.
    pre: 1 <= s0 <= 70000 and 1 <= s2 <= 70000 and 1 <= in_max <= 3
    post: _
    """
    return _delete('inv', 1, s0, 7, s2, 0, d0, d1, d2, d3, True, True, in_max, True, False, 5, True)


def delete_repack(h0: int, s0: int, s1: int, s2: int, s3: int, d0: bool, d1: bool, d2: bool, d3: bool, dabs: bool) -> bool:
    """
    pre: 0 <= h0 <= 3 and 1 <= s0 <= 70000 and 1 <= s1 <= 70000 and 1 <= s2 <= 70000 and 1 <= s3 <= 70000
    post: _
    """
    return _delete('inv', h0, s0, s1, s2, s3, d0, d1, d2, d3, dabs, True)


def delete_views(h0: int, s0: int, s1: int, s2: int, s3: int, d0: bool, d1: bool, d2: bool, d3: bool, dabs: bool) -> bool:
    """
    pre: 0 <= h0 <= 3 and 1 <= s0 <= 70000 and 1 <= s1 <= 70000 and 1 <= s2 <= 70000 and 1 <= s3 <= 70000
    post: _
    """
    return _delete('views', h0, s0, s1, s2, s3, d0, d1, d2, d3, dabs, False)


def delete_reach(h0: int, s0: int, s1: int, s2: int, s3: int, d0: bool, d1: bool, d2: bool, d3: bool, dabs: bool) -> bool:
    """
    Reachability twin: must be REFUTED (all packed objects deleted -> the pack file disappears).

    pre: 0 <= h0 <= 3 and 1 <= s0 <= 70000 and 1 <= s1 <= 70000 and 1 <= s2 <= 70000 and 1 <= s3 <= 70000
    post: _
    """
    return _delete('reach', h0, s0, s1, s2, s3, d0, d1, d2, d3, dabs, True)


def _dups(what, s0, s2, d0, d2, damaged, good):
    """stray duplicates/ files: obj0 loose (possibly damaged) with two duplicates (the first junk, the second good iff
    ``good``), obj2 packed with one good duplicate; delete_objects removes the duplicates of exactly the deleted keys;
    clean_storage removes the duplicates of intact objects and repairs a damaged object from a good duplicate."""
    w = make_world(10**9)
    try:
        w.set_pack(0, [('junk', 0, 1), ('obj', 2, s2)])
        w.put_loose(0, s0)
        k0, k2 = w.key(0, s0), w.key(2, s2)
        w.put_duplicate(0, s0, False, 'aa')
        w.put_duplicate(0, s0, good, 'bb')
        w.put_duplicate(2, s2, True, 'cc')
        if what == 'delete':
            req = ([k0] if d0 else []) + ([k2] if d2 else [])
            got = w.c.delete_objects(req)
            if sorted(got) != sorted(req):
                return False
            left = w.duplicates()
            want = ([] if d0 else [k0 + '.aa', k0 + '.bb']) + ([] if d2 else [k2 + '.cc'])
            if left != sorted(want):
                return False
            live = ([] if d0 else [(0, s0)]) + ([] if d2 else [(2, s2)])
            return inv_ok(w.image(), w, objs_map(w, live))
        if damaged:
            w.damage_loose(k0, s0)
        objs = objs_map(w, [(0, s0), (2, s2)])
        try:
            w.c.clean_storage()
        except w.C.InconsistentContent:
            # only when the object is corrupt and no duplicate is good; nothing may have been lost
            return damaged and not good and w.duplicates() != []
        if damaged and not good:
            return False
        return w.duplicates() == [] and inv_ok(w.image(), w, objs) and views_ok(w.c, w, objs, ABSENT)
    finally:
        w.cleanup()


def dups_delete(s0: int, s2: int, d0: bool, d2: bool, good: bool) -> bool:
    """
    pre: 1 <= s0 <= 70000 and 1 <= s2 <= 70000
    post: _
    """
    return _dups('delete', s0, s2, d0, d2, False, good)


def dups_clean(s0: int, s2: int, damaged: bool, good: bool) -> bool:
    """
    pre: 1 <= s0 <= 70000 and 1 <= s2 <= 70000
    post: _
    """
    return _dups('clean', s0, s2, False, False, damaged, good)
