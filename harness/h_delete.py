"""delete_objects then repack from a symbolic state (C11; C02 for delete/repack)."""
from harness.common import *  # noqa

ABSENT = 'b' * 64


def _delete(what, h0, s0, s1, s2, s3, d0, d1, d2, d3, dabs, do_repack, in_max=950, z2=False, z3=False, zl=20, direct=False):
    """obj0 loose; obj1 loose and packed; obj2, obj3 packed (pack 0 = hole, obj1, obj2, obj3); obj2/obj3 stored
    compressed iff z2/z3 (compressed length zl); ``in_max`` = the SQL IN-batch size (symbolic small, so that the request
    is split into several chunks); ``direct``: repack_pack('0') on its own, then a NEW handle answers the views."""
    w = make_world(10**9)
    try:
        w.set_zlen(2, s2, zl)
        w.set_zlen(3, s3, zl)
        w.set_pack(0, [('junk', 0, h0), ('obj', 1, s1), ('zobj' if z2 else 'obj', 2, s2), ('zobj' if z3 else 'obj', 3, s3)])
        w.put_loose(0, s0)
        w.put_loose(1, s1)
        w.c._IN_SQL_MAX_LENGTH = in_max
        sizes = [s0, s1, s2, s3]
        flags = [d0, d1, d2, d3]
        req = [w.key(i, sizes[i]) for i in range(4) if flags[i]]
        if dabs:
            req = [ABSENT] + req
        got = w.c.delete_objects(req)
        if sorted(got) != sorted(k for k in req if k != ABSENT):
            return False
        live = [(i, sizes[i]) for i in range(4) if not flags[i]]
        objs = objs_map(w, live)
        after = w.image()
        if not inv_ok(after, w, objs):
            return False
        if what == 'views' or not do_repack:
            return views_ok(w.c, w, objs, ABSENT)
        if direct:
            if len(after.pack_ids()):
                w.c.repack_pack('0')
            w.c.close()
            w.c = w.new_handle()
        else:
            w.c.repack()
        final = w.image()
        if what == 'reach':
            return len(final.pack_ids()) > 0
        if not inv_ok(final, w, objs):
            return False
        # each pack file equals the concatenation of its live objects' stored bytes; packs without live objects are gone
        rows = final.rows()
        for pid in final.pack_ids():
            total = 0
            n = 0
            for r in rows:
                if r['pack_id'] == pid:
                    total = total + r['length']
                    n += 1
            if n == 0 or len(final.pack_data(pid)) != total:
                return False
        for r in rows:
            if r['pack_id'] not in final.pack_ids():
                return False
        return views_ok(w.c, w, objs, ABSENT)
    finally:
        w.cleanup()


def delete_chunks(h0: int, s0: int, s2: int, d0: bool, d1: bool, d2: bool, d3: bool, dabs: bool, in_max: int, z2: bool, z3: bool, zl: int) -> bool:
    """
    delete_objects with the request split into SQL IN-chunks of in_max keys, compressed and plain packed objects, repack.
    pre: 0 <= h0 <= 3 and 1 <= s0 <= 70000 and 1 <= s2 <= 70000 and 1 <= in_max <= 3 and 2 <= zl <= 70000
    post: _
    """
    return _delete('inv', h0, s0, 7, s2, 9, d0, d1, d2, d3, dabs, True, in_max, z2, z3, zl)


def delete_repack_pack(h0: int, s0: int, s2: int, d0: bool, d1: bool, d2: bool, d3: bool, dabs: bool, in_max: int, z2: bool, z3: bool, zl: int) -> bool:
    """
    as delete_chunks, but repack_pack('0') is called on its own and the views are answered by a new handle.
    pre: 0 <= h0 <= 3 and 1 <= s0 <= 70000 and 1 <= s2 <= 70000 and 1 <= in_max <= 3 and 2 <= zl <= 70000
    post: _
    """
    return _delete('inv', h0, s0, 7, s2, 9, d0, d1, d2, d3, dabs, True, in_max, z2, z3, zl, True)


def delete_repack(h0: int, s0: int, s1: int, s2: int, s3: int, d0: bool, d1: bool, d2: bool, d3: bool, dabs: bool) -> bool:
    """
    pre: 0 <= h0 <= 3 and 1 <= s0 <= 70000 and 1 <= s1 <= 70000 and 1 <= s2 <= 70000 and 1 <= s3 <= 70000
    post: _
    """
    return _delete('inv', h0, s0, s1, s2, s3, d0, d1, d2, d3, dabs, True)


def delete_views(h0: int, s0: int, s1: int, s2: int, s3: int, d0: bool, d1: bool, d2: bool, d3: bool, dabs: bool) -> bool:
    """
    pre: 0 <= h0 <= 3 and 1 <= s0 <= 70000 and 1 <= s1 <= 70000 and 1 <= s2 <= 70000 and 1 <= s3 <= 70000
    post: _
    """
    return _delete('views', h0, s0, s1, s2, s3, d0, d1, d2, d3, dabs, False)


def delete_reach(h0: int, s0: int, s1: int, s2: int, s3: int, d0: bool, d1: bool, d2: bool, d3: bool, dabs: bool) -> bool:
    """
    Reachability twin: must be REFUTED (all packed objects deleted -> the pack file disappears).

    pre: 0 <= h0 <= 3 and 1 <= s0 <= 70000 and 1 <= s1 <= 70000 and 1 <= s2 <= 70000 and 1 <= s3 <= 70000
    post: _
    """
    return _delete('reach', h0, s0, s1, s2, s3, d0, d1, d2, d3, dabs, True)
