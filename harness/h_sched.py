"""Actors under the rely of a concurrent packer/cleaner, on the model file system with scheduled events (C04):
a loose WRITER of duplicate and new content, and a SEEKING READER of a compressed packed object (re-loosened cache).

The other actors are not executed: their effects (the cleaner unlinks a loose file whose row is committed; another writer
re-creates it) happen when the observation clock of the actor under test reaches a symbolic instant."""
from harness.common import *  # noqa

ABSENT = 'b' * 64


def _writer(what, s0, s1, tu, dr, cut):
    """obj0 is loose AND packed (its row is committed: only then may the cleaner unlink the loose copy, at instant tu);
    another writer may re-create the loose copy dr > 0 observations later.  The writer under test adds obj0 again and a new obj1."""
    w = make_world(10**9)
    try:
        w.set_pack(0, [('junk', 0, 1), ('obj', 0, s0)])
        w.put_loose(0, s0)
        k0 = w.key(0, s0)
        w.at(tu, 'unlink_loose', k0)
        if dr > 0:
            w.at(tu + dr, 'put_loose', 0, s0)
        got0 = w.c.add_streamed_object(w.stream(0, s0, cut))
        got1 = w.c.add_streamed_object(w.stream(1, s1))
        if what == 'reach':
            return not (tu < w.clock() and w.image().loose_data(k0) is None)
        if got0 != k0 or got1 != w.key(1, s1):
            return False
        objs = objs_map(w, [(0, s0), (1, s1)])
        return inv_ok(w.image(), w, objs) and views_ok(w.c, w, objs, ABSENT)
    finally:
        w.cleanup()


def _seeker(what, s0, z0, t1, d2, prog):
    """obj0 is packed compressed; the reader seeks (whence 2 / backwards), which re-loosens the object; the cleaner
    unlinks the re-loosened copy at t1 and again d2 > 0 observations later (one packer run: at most two unlinks per key)."""
    w = make_world(10**9)
    try:
        w.set_zlen(0, s0, z0)
        w.set_pack(0, [('junk', 0, 1), ('zobj', 0, s0)])
        k0 = w.key(0, s0)
        w.at(t1, 'unlink_loose', k0)
        if d2 > 0:
            w.at(t1 + d2, 'unlink_loose', k0)
        want = w.content(0, s0)
        with w.c.get_object_stream(k0) as s:
            if prog == 0:
                end = s.seek(0, 2)
                s.seek(0)
                ok = end == s0 and s.read() == want
            elif prog == 1:
                first = s.read(1)
                s.seek(-1, 1)
                ok = first == want[:1] and s.read() == want
            else:
                s.seek(-1, 2)
                ok = s.read() == want[s0 - 1 :] and s.tell() == s0
        if what == 'reach':
            return not (d2 > 0 and t1 + d2 < w.clock())
        return ok and w.open_fds() == 0
    finally:
        w.cleanup()



def writer_dup_d0(s0: int, s1: int, tu: int) -> bool:
    """
    pre: 1 <= s0 <= 70000 and 1 <= s1 <= 70000 and 1 <= tu <= 60
    post: _
    """
    return _writer('check', s0, s1, tu, 0, 0)


def writer_dup_d1(s0: int, s1: int, tu: int) -> bool:
    """
    pre: 1 <= s0 <= 70000 and 1 <= s1 <= 70000 and 1 <= tu <= 60
    post: _
    """
    return _writer('check', s0, s1, tu, 1, 0)


def writer_dup_d3(s0: int, s1: int, tu: int) -> bool:
    """
    pre: 1 <= s0 <= 70000 and 1 <= s1 <= 70000 and 1 <= tu <= 60
    post: _
    """
    return _writer('check', s0, s1, tu, 3, 0)


def writer_reach(s0: int, s1: int, tu: int, dr: int, cut: int) -> bool:
    """
    Reachability twin: must be REFUTED (the loose copy is unlinked while the writer runs and stays away).
    pre: 1 <= s0 <= 70000 and 1 <= s1 <= 70000 and 1 <= tu <= 60 and 0 <= dr <= 20 and 0 <= cut <= 70000
    post: _
    """
    return _writer('reach', s0, s1, tu, dr, cut)


def seeker_p0_d0(s0: int, z0: int, t1: int) -> bool:
    """
    pre: 1 <= s0 <= 70000 and 2 <= z0 <= 70000 and 1 <= t1 <= 80
    post: _
    """
    return _seeker('check', s0, z0, t1, 0, 0)


def seeker_p0_d2(s0: int, z0: int, t1: int) -> bool:
    """
    pre: 1 <= s0 <= 70000 and 2 <= z0 <= 70000 and 1 <= t1 <= 80
    post: _
    """
    return _seeker('check', s0, z0, t1, 2, 0)


def seeker_p1_d0(s0: int, z0: int, t1: int) -> bool:
    """
    pre: 1 <= s0 <= 70000 and 2 <= z0 <= 70000 and 1 <= t1 <= 80
    post: _
    """
    return _seeker('check', s0, z0, t1, 0, 1)


def seeker_p1_d2(s0: int, z0: int, t1: int) -> bool:
    """
    pre: 1 <= s0 <= 70000 and 2 <= z0 <= 70000 and 1 <= t1 <= 80
    post: _
    """
    return _seeker('check', s0, z0, t1, 2, 1)


def seeker_p2_d0(s0: int, z0: int, t1: int) -> bool:
    """
    pre: 1 <= s0 <= 70000 and 2 <= z0 <= 70000 and 1 <= t1 <= 80
    post: _
    """
    return _seeker('check', s0, z0, t1, 0, 2)


def seeker_p2_d2(s0: int, z0: int, t1: int) -> bool:
    """
    pre: 1 <= s0 <= 70000 and 2 <= z0 <= 70000 and 1 <= t1 <= 80
    post: _
    """
    return _seeker('check', s0, z0, t1, 2, 2)


def seeker_reach(s0: int, z0: int, t1: int, d2: int, prog: int) -> bool:
    """
    Reachability twin: must be REFUTED (two unlinks of the re-loosened copy fall inside the read).
    pre: 1 <= s0 <= 70000 and 2 <= z0 <= 70000 and 1 <= t1 <= 80 and 0 <= d2 <= 20 and 0 <= prog <= 2
    post: _
    """
    return _seeker('reach', s0, z0, t1, d2, prog)


def _seeker2(what, s0, z0, t, prog, skip):
    """obj0 and obj1 are LOOSE when the reader starts its bulk call; another client packs everything compressed and cleans
    at observation t of the reader (after its index look-up): the second-chance look-up then serves the objects from the
    pack; each stream must still behave like an in-memory file over ITS object, seeks from the end included, and nothing
    stays open afterwards."""
    w = make_world(10**9)
    try:
        w.set_zlen(0, s0, z0)
        w.set_zlen(1, 9, 5)
        w.put_loose(0, s0)
        w.put_loose(1, 9)
        objs = objs_map(w, [(0, s0), (1, 9)])
        other = w.new_handle()

        def pack_and_clean():
            from disk_objectstore.utils import CompressMode

            other.pack_all_loose(compress=CompressMode.YES)
            other.clean_storage()

        w.at(t, 'call', pack_and_clean)
        n = 0
        ok = True
        keep = []
        with w.c.get_objects_stream_and_meta(list(objs), skip_if_missing=skip) as triplets:
            for key, s, meta in triplets:
                n += 1
                i, size = objs[key]
                want = w.content(i, size)
                if s is None or meta.size != size:
                    return False
                keep.append(s)  # the caller keeps a reference to the stream
                if prog == 0:
                    end = s.seek(0, 2)
                    s.seek(0)
                    ok = ok and end == size and s.read() == want
                elif prog == 1:
                    first = s.read(1)
                    s.seek(-1, 1)
                    ok = ok and first == want[:1] and s.read() == want
                else:
                    s.seek(-1, 2)
                    ok = ok and s.read() == want[size - 1 :] and s.tell() == size
        other.close()
        if what == 'reach':
            return not (len(w.image().rows()) == 2 and ok)
        return ok and n == 2 and w.open_fds() == 0
    finally:
        w.cleanup()


def seeker2(s0: int, z0: int, t: int, prog: int, skip: bool) -> bool:
    """
    pre: 1 <= s0 <= 70000 and 2 <= z0 <= 70000 and 1 <= t <= 30 and 0 <= prog <= 2
    post: _
    """
    return _seeker2('check', s0, z0, t, prog, skip)


def seeker2_reach(s0: int, z0: int, t: int, prog: int, skip: bool) -> bool:
    """
    Reachability twin: must be REFUTED (the pack + clean falls between the index look-up and the opening of the loose file).
    pre: 1 <= s0 <= 70000 and 2 <= z0 <= 70000 and 1 <= t <= 30 and 0 <= prog <= 2
    post: _
    """
    return _seeker2('reach', s0, z0, t, prog, skip)


from harness.h_crash import _gpacker  # noqa: E402


def gpacker_pack(h0: int, sp: int, s0: int, s1: int, target: int, clean: bool) -> bool:
    """
    pre: 0 <= h0 <= 1 and 1 <= sp <= 100 and 1 <= s0 <= 70000 and 1 <= s1 <= 100 and 1 <= target <= 70200
    post: _
    """
    return _gpacker('pack_clean' if clean else 'pack', h0, sp, s0, s1, target)


def gpacker_nofsync(h0: int, sp: int, s0: int, s1: int, target: int) -> bool:
    """
    pre: 0 <= h0 <= 1 and 1 <= sp <= 100 and 1 <= s0 <= 70000 and 1 <= s1 <= 100 and 1 <= target <= 70200
    post: _
    """
    return _gpacker('pack_nofsync', h0, sp, s0, s1, target)


def gpacker_direct(h0: int, sp: int, s0: int, s1: int, target: int, nh: bool) -> bool:
    """
    pre: 0 <= h0 <= 1 and 1 <= sp <= 100 and 1 <= s0 <= 70000 and 1 <= s1 <= 100 and 1 <= target <= 70200
    post: _
    """
    return _gpacker('direct_noholes' if nh else 'direct', h0, sp, s0, s1, target)


from harness.h_crash import _perm  # noqa: E402


def perm_pack(h0: int, sp: int, s0: int, s1: int, target: int, at: int, clean: bool) -> bool:
    """
    pre: 0 <= h0 <= 1 and 1 <= sp <= 100 and 1 <= s0 <= 70000 and 1 <= s1 <= 100 and 1 <= target <= 70200
    pre: 1 <= at <= 8
    post: _
    """
    return _perm('pack_clean' if clean else 'pack', h0, sp, s0, s1, target, at)


def perm_other(h0: int, sp: int, s0: int, s1: int, target: int, at: int, which: int) -> bool:
    """
    pre: 0 <= h0 <= 1 and 1 <= sp <= 100 and 1 <= s0 <= 70000 and 1 <= s1 <= 100 and 1 <= target <= 70200
    pre: 1 <= at <= 8 and 0 <= which <= 2
    post: _
    """
    return _perm(('loose', 'repack', 'import')[which], h0, sp, s0, s1, target, at)
