"""Compression: pack_all_loose / repack / direct-to-pack with every CompressMode from symbolic pre-states holding
compressed and plain objects (C10; compressed paths of C01 C02 C03 C12)."""
from harness.common import *  # noqa

ABSENT = 'b' * 64


def _mode(name):
    from disk_objectstore.utils import CompressMode

    return {'yes': CompressMode.YES, 'no': CompressMode.NO, 'keep': CompressMode.KEEP, 'auto': CompressMode.AUTO,
            'true': True, 'false': False}[name]


def _expected(name, before):
    """stored form demanded by the mode: True / False / None (either)"""
    if name in ('yes', 'true'):
        return True
    if name in ('no', 'false'):
        return False
    if name == 'keep':
        return before
    return None


def totals_ok(c, img):
    """C10: the container's size totals are the sums of the recorded sizes / stored lengths; pack files on disk"""
    ts = c.get_total_size()
    size = length = 0
    for r in img.rows():
        size = size + r['size']
        length = length + r['length']
    disk = 0
    for pid in img.pack_ids():
        disk = disk + len(img.pack_data(pid))
    loose = 0
    for k in img.loose_keys():
        loose = loose + len(img.loose_data(k))
    return (ts['total_size_packed'] == size and ts['total_size_packed_on_disk'] == length
            and ts['total_size_packfiles_on_disk'] == disk and ts['total_size_loose'] == loose)


def meta_ok(c, img):
    """get_objects_meta reports exactly the index row of every packed object"""
    rows = img.rows()
    metas = dict(c.get_objects_meta([r['hashkey'] for r in rows], skip_if_missing=False))
    for r in rows:
        m = metas[r['hashkey']]
        if m.pack_id != r['pack_id'] or m.pack_offset != r['offset'] or m.pack_length != r['length']:
            return False
        if m.size != r['size'] or bool(m.pack_compressed) != bool(r['compressed']):
            return False
    return True


def no_unreferenced(img, holes):
    """every pack is exactly its holes plus the stored bytes of its rows (the recorded length is what is occupied)"""
    total = 0
    for pid in img.pack_ids():
        total = total + len(img.pack_data(pid))
    want = holes
    for r in img.rows():
        want = want + r['length']
    return total == want


def forms_ok(img, w, name, pairs, before):
    """pairs: [(i, size)]; before: {key: previous compressed flag}"""
    rows = img.rows()
    for i, size in pairs:
        key = w.key(i, size)
        exp = _expected(name, before.get(key, False))
        for r in rows:
            if r['hashkey'] == key and exp is not None and bool(r['compressed']) != exp:
                return False
    return True


def _cpack(what, name, pz, h0, sp, zp, s0, z0, s1, z1, early, target):
    """pack 0 = hole + obj2 (compressed iff pz); obj0, obj1 loose; pack_all_loose(compress=mode)."""
    w = make_world(target)
    try:
        w.set_zlen(0, s0, z0)
        w.set_zlen(1, s1, z1)
        w.set_zlen(2, sp, zp)
        w.set_codec(early=early, sample_len=z1)
        w.set_pack(0, [('junk', 0, h0), ('zobj' if pz else 'obj', 2, sp)])
        w.put_loose(0, s0)
        w.put_loose(1, s1)
        objs = objs_map(w, [(0, s0), (1, s1), (2, sp)])
        before = w.image()
        w.c.pack_all_loose(compress=_mode(name))
        after = w.image()
        if what == 'reach':
            n = 0
            for r in after.rows():
                if r['compressed']:
                    n += 1
            return n < 2
        if not inv_ok(after, w, objs) or len(after.rows()) != 3:
            return False
        if not layout_ok(before, after, target):  # C13: the pack switch follows the bytes really written
            return False
        # loose objects are uncompressed: KEEP means "do not compress" for them; obj2 is not touched at all
        if not forms_ok(after, w, name if name != 'keep' else 'no', [(0, s0), (1, s1)], {}):
            return False
        if not forms_ok(after, w, 'keep', [(2, sp)], {w.key(2, sp): pz}):
            return False
        if not no_unreferenced(after, h0) or not totals_ok(w.c, after) or not meta_ok(w.c, after):
            return False
        if not w.c.validate().is_valid():
            return False
        return views_ok(w.c, w, objs, ABSENT) and chunked_ok(w.c, w, objs)
    finally:
        w.cleanup()


def _crepack(what, name, name2, h0, s0, z0, f0, s1, z1, f1, early):
    """pack 0 = hole + obj0 (compressed iff f0) + hole + obj1 (compressed iff f1); repack(mode) [then repack(mode2)]."""
    w = make_world(10**9)
    try:
        w.set_zlen(0, s0, z0)
        w.set_zlen(1, s1, z1)
        w.set_codec(early=early, sample_len=z1)
        w.set_pack(0, [('junk', 0, h0), ('zobj' if f0 else 'obj', 0, s0), ('junk', 1, 1), ('zobj' if f1 else 'obj', 1, s1)])
        objs = objs_map(w, [(0, s0), (1, s1)])
        before = {w.key(0, s0): f0, w.key(1, s1): f1}
        w.c.repack(compress_mode=_mode(name))
        after = w.image()
        if what == 'reach':
            flipped = 0
            for r in after.rows():
                if bool(r['compressed']) != before[r['hashkey']]:
                    flipped += 1
            return flipped < 2
        if not inv_ok(after, w, objs) or len(after.rows()) != 2 or after.pack_ids() != [0]:
            return False
        if not forms_ok(after, w, name, [(0, s0), (1, s1)], before):
            return False
        if not no_unreferenced(after, 0) or not totals_ok(w.c, after) or not meta_ok(w.c, after):
            return False
        if not views_ok(w.c, w, objs, ABSENT):
            return False
        if name2 is None:
            return w.c.validate().is_valid()
        mid = {}
        for r in after.rows():
            mid[r['hashkey']] = bool(r['compressed'])
        w.c.repack(compress_mode=_mode(name2))
        final = w.image()
        if not inv_ok(final, w, objs) or len(final.rows()) != 2 or final.pack_ids() != [0]:
            return False
        if not forms_ok(final, w, name2, [(0, s0), (1, s1)], mid):
            return False
        if not no_unreferenced(final, 0) or not totals_ok(w.c, final) or not meta_ok(w.c, final):
            return False
        return views_ok(w.c, w, objs, ABSENT) and w.c.validate().is_valid()
    finally:
        w.cleanup()


def _cdirect(what, h0, s0, z0, s1, z1, s2, z2, dup, early, target, no_holes, read_twice):
    """direct to pack with compress=True: pack 0 = hole + obj0 stored compressed; batch [obj1, obj2] + a duplicate of
    obj0 (dup 0..2 = position) or of obj1 (dup 3)."""
    w = make_world(target)
    try:
        w.set_zlen(0, s0, z0)
        w.set_zlen(1, s1, z1)
        w.set_zlen(2, s2, z2)
        w.set_codec(early=early)
        w.set_pack(0, [('junk', 0, h0), ('zobj', 0, s0)])
        batch = [(1, s1), (2, s2)]
        if dup <= 2:
            batch.insert(dup, (0, s0))
        else:
            batch.append((1, s1))
        objs = objs_map(w, [(0, s0), (1, s1), (2, s2)])
        before = w.image()
        keys = w.c.add_streamed_objects_to_pack([w.stream(i, s) for i, s in batch], compress=True, no_holes=no_holes,
                                                no_holes_read_twice=read_twice)
        if keys != [w.key(i, s) for i, s in batch]:
            return False
        after = w.image()
        if what == 'reach':
            return len(after.pack_ids()) < 2
        if not inv_ok(after, w, objs) or len(after.rows()) != 3:
            return False
        if not layout_ok(before, after, target):
            return False
        if not forms_ok(after, w, 'yes', [(0, s0), (1, s1), (2, s2)], {}):
            return False
        if no_holes and not no_unreferenced(after, h0):
            return False
        if not totals_ok(w.c, after) or not meta_ok(w.c, after):
            return False
        return views_ok(w.c, w, objs, ABSENT)
    finally:
        w.cleanup()


def _should(name, source_compressed, length, size, spos, zs, z):
    """should_compress / estimate_compression on a seekable stream positioned at spos: the decision honours the mode and
    the stream position is restored (the caller copies the object from there afterwards)."""
    w = make_world(10**9)
    try:
        w.set_zlen(0, size, z)
        w.set_codec(early=0, sample_len=zs)
        stream = w.stream(0, size)
        stream.seek(spos)
        r = w.U.should_compress(stream, _mode(name), source_compressed, length, size)
        if stream.tell() != spos:
            return False
        if name == 'yes':
            return r is True
        if name == 'no':
            return r is False
        if name == 'keep':
            return r == source_compressed
        if size == 0:
            return r is False  # never worth compressing
        if source_compressed:
            return r == (length * 10 < size * 9)  # already compressed: worth it iff it saved more than 10%
        return r is True or r is False
    finally:
        w.cleanup()


def should_modes(mode: int, source_compressed: bool, length: int, size: int, spos: int, zs: int, z: int) -> bool:
    """
    pre: 0 <= mode <= 2 and 0 <= length <= 300000 and 0 <= size <= 300000 and 0 <= spos <= size
    pre: 1 <= zs <= 300000 and 2 <= z <= 300000
    post: _
    """
    return _should(('yes', 'no', 'keep')[mode], source_compressed, length, size, spos, zs, z)


def should_auto_packed_0_0(spos: int, zs: int, z: int) -> bool:
    """
    pre: 0 <= spos <= 0 and 1 <= zs <= 300000 and 2 <= z <= 300000
    post: _
    """
    return _should('auto', True, 0, 0, spos, zs, z)


def should_auto_packed_0_5(spos: int, zs: int, z: int) -> bool:
    """
    pre: 0 <= spos <= 0 and 1 <= zs <= 300000 and 2 <= z <= 300000
    post: _
    """
    return _should('auto', True, 5, 0, spos, zs, z)


def should_auto_packed_1_0(spos: int, zs: int, z: int) -> bool:
    """
    pre: 0 <= spos <= 1 and 1 <= zs <= 300000 and 2 <= z <= 300000
    post: _
    """
    return _should('auto', True, 0, 1, spos, zs, z)


def should_auto_packed_1_1(spos: int, zs: int, z: int) -> bool:
    """
    pre: 0 <= spos <= 1 and 1 <= zs <= 300000 and 2 <= z <= 300000
    post: _
    """
    return _should('auto', True, 1, 1, spos, zs, z)


def should_auto_packed_10_8(spos: int, zs: int, z: int) -> bool:
    """
    pre: 0 <= spos <= 10 and 1 <= zs <= 300000 and 2 <= z <= 300000
    post: _
    """
    return _should('auto', True, 8, 10, spos, zs, z)


def should_auto_packed_10_9(spos: int, zs: int, z: int) -> bool:
    """
    pre: 0 <= spos <= 10 and 1 <= zs <= 300000 and 2 <= z <= 300000
    post: _
    """
    return _should('auto', True, 9, 10, spos, zs, z)


def should_auto_packed_10_10(spos: int, zs: int, z: int) -> bool:
    """
    pre: 0 <= spos <= 10 and 1 <= zs <= 300000 and 2 <= z <= 300000
    post: _
    """
    return _should('auto', True, 10, 10, spos, zs, z)


def should_auto_packed_1000_0(spos: int, zs: int, z: int) -> bool:
    """
    pre: 0 <= spos <= 1000 and 1 <= zs <= 300000 and 2 <= z <= 300000
    post: _
    """
    return _should('auto', True, 0, 1000, spos, zs, z)


def should_auto_packed_1000_899(spos: int, zs: int, z: int) -> bool:
    """
    pre: 0 <= spos <= 1000 and 1 <= zs <= 300000 and 2 <= z <= 300000
    post: _
    """
    return _should('auto', True, 899, 1000, spos, zs, z)


def should_auto_packed_1000_900(spos: int, zs: int, z: int) -> bool:
    """
    pre: 0 <= spos <= 1000 and 1 <= zs <= 300000 and 2 <= z <= 300000
    post: _
    """
    return _should('auto', True, 900, 1000, spos, zs, z)


def should_auto_packed_1000_901(spos: int, zs: int, z: int) -> bool:
    """
    pre: 0 <= spos <= 1000 and 1 <= zs <= 300000 and 2 <= z <= 300000
    post: _
    """
    return _should('auto', True, 901, 1000, spos, zs, z)


def should_auto_packed_1000_1200(spos: int, zs: int, z: int) -> bool:
    """
    pre: 0 <= spos <= 1000 and 1 <= zs <= 300000 and 2 <= z <= 300000
    post: _
    """
    return _should('auto', True, 1200, 1000, spos, zs, z)


def should_auto_packed_299999_269999(spos: int, zs: int, z: int) -> bool:
    """
    pre: 0 <= spos <= 299999 and 1 <= zs <= 300000 and 2 <= z <= 300000
    post: _
    """
    return _should('auto', True, 269999, 299999, spos, zs, z)


def should_auto_packed_299999_270000(spos: int, zs: int, z: int) -> bool:
    """
    pre: 0 <= spos <= 299999 and 1 <= zs <= 300000 and 2 <= z <= 300000
    post: _
    """
    return _should('auto', True, 270000, 299999, spos, zs, z)


def should_auto_plain_0(spos: int, worth: bool) -> bool:
    """
    pre: 0 <= spos <= 0
    post: _
    """
    return _should('auto', False, 0, 0, spos, 10 if worth else 400000, 30)


def should_auto_plain_1(spos: int, worth: bool) -> bool:
    """
    pre: 0 <= spos <= 1
    post: _
    """
    return _should('auto', False, 1, 1, spos, 10 if worth else 400000, 30)


def should_auto_plain_1023(spos: int, worth: bool) -> bool:
    """
    pre: 0 <= spos <= 1023
    post: _
    """
    return _should('auto', False, 1023, 1023, spos, 10 if worth else 400000, 30)


def should_auto_plain_1024(spos: int, worth: bool) -> bool:
    """
    pre: 0 <= spos <= 1024
    post: _
    """
    return _should('auto', False, 1024, 1024, spos, 10 if worth else 400000, 30)


def should_auto_plain_1025(spos: int, worth: bool) -> bool:
    """
    pre: 0 <= spos <= 1025
    post: _
    """
    return _should('auto', False, 1025, 1025, spos, 10 if worth else 400000, 30)


def should_auto_plain_5000(spos: int, worth: bool) -> bool:
    """
    pre: 0 <= spos <= 5000
    post: _
    """
    return _should('auto', False, 5000, 5000, spos, 10 if worth else 400000, 30)


def should_auto_plain_131071(spos: int, worth: bool) -> bool:
    """
    pre: 0 <= spos <= 131071
    post: _
    """
    return _should('auto', False, 131071, 131071, spos, 10 if worth else 400000, 30)


def should_auto_plain_131072(spos: int, worth: bool) -> bool:
    """
    pre: 0 <= spos <= 131072
    post: _
    """
    return _should('auto', False, 131072, 131072, spos, 10 if worth else 400000, 30)


def should_auto_plain_131073(spos: int, worth: bool) -> bool:
    """
    pre: 0 <= spos <= 131073
    post: _
    """
    return _should('auto', False, 131073, 131073, spos, 10 if worth else 400000, 30)


def should_auto_plain_200000(spos: int, worth: bool) -> bool:
    """
    pre: 0 <= spos <= 200000
    post: _
    """
    return _should('auto', False, 200000, 200000, spos, 10 if worth else 400000, 30)


def should_auto_plain_300000(spos: int, worth: bool) -> bool:
    """
    pre: 0 <= spos <= 300000
    post: _
    """
    return _should('auto', False, 300000, 300000, spos, 10 if worth else 400000, 30)


