"""Sorted-merge helpers underlying the large-request path (C16).  Pure functions: the replay is the same call."""
from typing import List, Tuple

from disk_objectstore.utils import chunk_iterator, detect_where_sorted, merge_sorted


def _sorted_unique(xs):
    return all(xs[i] < xs[i + 1] for i in range(len(xs) - 1))


def _classify(left, right):
    return [(x, w.value) for x, w in detect_where_sorted(left, right)]


def where_spec(left: List[int], right: List[int]) -> bool:
    """
    Every element of two sorted unique sequences is classified exactly once and correctly, in sorted order.

    pre: len(left) <= 3 and len(right) <= 3
    pre: _sorted_unique(left) and _sorted_unique(right)
    post: _
    """
    got = _classify(left, right)
    want = sorted([(x, (0 if x in right else -1)) for x in left] + [(x, 1) for x in right if x not in left])
    return got == want


def where_key_spec(left: List[int], right: List[int], tag: int) -> bool:
    """
    Same with a left_key (left elements are tuples whose first entry is the key).

    pre: len(left) <= 3 and len(right) <= 3
    pre: _sorted_unique(left) and _sorted_unique(right)
    post: _
    """
    got = [(x, w.value) for x, w in detect_where_sorted([(x, tag) for x in left], right, left_key=lambda t: t[0])]
    want = sorted(
        [((x, tag), (0 if x in right else -1)) for x in left] + [(x, 1) for x in right if x not in left],
        key=lambda e: e[0][0] if isinstance(e[0], tuple) else e[0],
    )
    return got == want


def where_rejects_unsorted(left: List[int], right: List[int]) -> bool:
    """
    Unsorted / non-unique input is rejected when the generator is exhausted.

    pre: len(left) <= 3 and len(right) <= 3
    pre: not (_sorted_unique(left) and _sorted_unique(right))
    post: _
    """
    try:
        _classify(left, right)
    except ValueError:
        return True
    return False


def merge_spec(left: List[int], right: List[int]) -> bool:
    """
    pre: len(left) <= 3 and len(right) <= 3
    pre: _sorted_unique(left) and _sorted_unique(right)
    post: _
    """
    return list(merge_sorted(left, right)) == sorted(set(left) | set(right))


def chunk_spec(xs: List[int], size: int) -> bool:
    """
    pre: len(xs) <= 6 and 1 <= size <= 4
    post: _
    """
    chunks = list(chunk_iterator(xs, size))
    flat = [x for ch in chunks for x in ch]
    return flat == xs and all(len(ch) == size for ch in chunks[:-1]) and all(1 <= len(ch) <= size for ch in chunks)


def where_reach(left: List[int], right: List[int]) -> bool:
    """
    Reachability twin: must be REFUTED (an input with elements on the left only, right only and both exists).

    pre: len(left) <= 4 and len(right) <= 4
    pre: _sorted_unique(left) and _sorted_unique(right)
    post: _
    """
    kinds = set(w for _, w in _classify(left, right))
    return len(kinds) < 3


def where_spec4(left: List[int], right: List[int]) -> bool:
    """
    pre: len(left) <= 4 and len(right) <= 4
    pre: _sorted_unique(left) and _sorted_unique(right)
    post: _
    """
    got = _classify(left, right)
    want = sorted([(x, (0 if x in right else -1)) for x in left] + [(x, 1) for x in right if x not in left])
    return got == want


def merge_spec4(left: List[int], right: List[int]) -> bool:
    """
    pre: len(left) <= 4 and len(right) <= 4
    pre: _sorted_unique(left) and _sorted_unique(right)
    post: _
    """
    return list(merge_sorted(left, right)) == sorted(set(left) | set(right))
