"""Sorted-merge helpers underlying the large-request path (C16).  Pure functions: the replay is the same call."""
from typing import List, Tuple

from disk_objectstore.utils import chunk_iterator, detect_where_sorted, merge_sorted


def _sorted_unique(xs):
    return all(xs[i] < xs[i + 1] for i in range(len(xs) - 1))


def _classify(left, right):
    return [(x, w.value) for x, w in detect_where_sorted(left, right)]


def where_spec(left: List[int], right: List[int]) -> bool:
    """
    Every element of two sorted unique sequences is classified exactly once and correctly, in sorted order.

    pre: len(left) <= 3 and len(right) <= 3
    pre: _sorted_unique(left) and _sorted_unique(right)
    post: _
    """
    got = _classify(left, right)
    want = sorted([(x, (0 if x in right else -1)) for x in left] + [(x, 1) for x in right if x not in left])
    return got == want


def where_key_spec(left: List[int], right: List[int], tag: int) -> bool:
    """
    Same with a left_key (left elements are tuples whose first entry is the key).

    pre: len(left) <= 3 and len(right) <= 3
    pre: _sorted_unique(left) and _sorted_unique(right)
    post: _
    """
    got = [(x, w.value) for x, w in detect_where_sorted([(x, tag) for x in left], right, left_key=lambda t: t[0])]
    want = sorted(
        [((x, tag), (0 if x in right else -1)) for x in left] + [(x, 1) for x in right if x not in left],
        key=lambda e: e[0][0] if isinstance(e[0], tuple) else e[0],
    )
    return got == want


def _rejects(left, right):
    if _sorted_unique(left) and _sorted_unique(right):
        return True  # not the subject of this cell
    try:
        _classify(left, right)
    except ValueError:
        return True
    return False


def rejects_31(a: int, b: int, c: int, d: int, nl: int, nr: int) -> bool:
    """
    Unsorted / non-unique input (left up to 3 elements, right up to 1) is rejected when the generator is exhausted.

    pre: 0 <= nl <= 3 and 0 <= nr <= 1
    pre: 0 <= a <= 3 and 0 <= b <= 3 and 0 <= c <= 3 and 0 <= d <= 3
    post: _
    """
    return _rejects([a, b, c][:nl], [d][:nr])


def rejects_13(a: int, b: int, c: int, d: int, nl: int, nr: int) -> bool:
    """
    pre: 0 <= nl <= 1 and 0 <= nr <= 3
    pre: 0 <= a <= 3 and 0 <= b <= 3 and 0 <= c <= 3 and 0 <= d <= 3
    post: _
    """
    return _rejects([d][:nl], [a, b, c][:nr])


def rejects_22(a: int, b: int, c: int, d: int, nl: int, nr: int) -> bool:
    """
    pre: 0 <= nl <= 2 and 0 <= nr <= 2
    pre: 0 <= a <= 3 and 0 <= b <= 3 and 0 <= c <= 3 and 0 <= d <= 3
    post: _
    """
    return _rejects([a, b][:nl], [c, d][:nr])


def merge_spec(left: List[int], right: List[int]) -> bool:
    """
    pre: len(left) <= 3 and len(right) <= 3
    pre: _sorted_unique(left) and _sorted_unique(right)
    post: _
    """
    return list(merge_sorted(left, right)) == sorted(set(left) | set(right))


def chunk_spec(xs: List[int], size: int) -> bool:
    """
    pre: len(xs) <= 6 and 1 <= size <= 4
    post: _
    """
    chunks = list(chunk_iterator(xs, size))
    flat = [x for ch in chunks for x in ch]
    return flat == xs and all(len(ch) == size for ch in chunks[:-1]) and all(1 <= len(ch) <= size for ch in chunks)


def where_reach(left: List[int], right: List[int]) -> bool:
    """
    Reachability twin: must be REFUTED (an input with elements on the left only, right only and both exists).

    pre: len(left) <= 4 and len(right) <= 4
    pre: _sorted_unique(left) and _sorted_unique(right)
    post: _
    """
    kinds = set(w for _, w in _classify(left, right))
    return len(kinds) < 3


def where_spec4(left: List[int], right: List[int]) -> bool:
    """
    pre: len(left) <= 4 and len(right) <= 4
    pre: _sorted_unique(left) and _sorted_unique(right)
    post: _
    """
    got = _classify(left, right)
    want = sorted([(x, (0 if x in right else -1)) for x in left] + [(x, 1) for x in right if x not in left])
    return got == want


def merge_spec4(left: List[int], right: List[int]) -> bool:
    """
    pre: len(left) <= 4 and len(right) <= 4
    pre: _sorted_unique(left) and _sorted_unique(right)
    post: _
    """
    return list(merge_sorted(left, right)) == sorted(set(left) | set(right))
