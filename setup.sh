#!/bin/bash
# Build the analysis venv offline: /venv's python + its site-packages + crosshair-tool from the wheelhouse.
set -e
cd "$(dirname "$0")"
V="$(pwd)/.venv"
if [ -x "$V/bin/python" ] && "$V/bin/python" -c "import crosshair, z3, sqlalchemy" 2>/dev/null; then
  exit 0
fi
rm -rf "$V"
/venv/bin/python -m venv "$V"
SP=$("$V/bin/python" -c "import sysconfig; print(sysconfig.get_paths()['purelib'])")
printf '/venv/lib/python3.12/site-packages\n/repo\n' > "$SP/vf_overlay.pth"
PIP_NO_INDEX=1 "$V/bin/python" -m pip install -q --no-index --find-links /opt/veriftools/wheels crosshair-tool >/dev/null
"$V/bin/python" -c "import crosshair, z3, sqlalchemy, disk_objectstore; print('venv ok', z3.get_version_string())"
