#!/usr/bin/env python3
"""tools/seedrun.py <patch.diff> <Cxx> [<Cxx> ...] [--cells a,b,c] [--tier quick]

Runs checks against a scratch copy of /repo's package with a seeded change applied (the copy lives outside /repo and
/verif and is removed afterwards; /repo itself is not touched).  Evidence and replays of these runs go to a scratch
directory, never to /verif/evidence.  Prints one line per check: exit code and the VIOLATION / HARNESS-ERROR lines."""
import os
import shutil
import subprocess
import sys
import tempfile

ROOT = os.path.dirname(os.path.dirname(os.path.abspath(__file__)))


def main():
    args = sys.argv[1:]
    cells = None
    tier = 'quick'
    if '--cells' in args:
        i = args.index('--cells')
        cells = args[i + 1]
        del args[i : i + 2]
    if '--tier' in args:
        i = args.index('--tier')
        tier = args[i + 1]
        del args[i : i + 2]
    patch, checks = args[0], args[1:]
    base = tempfile.mkdtemp(prefix='vf-seed-', dir=os.environ.get('VF_SCRATCH') or None)
    try:
        subprocess.run('git -C /repo archive HEAD disk_objectstore | tar -x -C %s' % base, shell=True, check=True)
        subprocess.run(['patch', '-p1', '-s', '-d', base, '-i', os.path.abspath(patch)], check=True)
        env = dict(os.environ, VF_REPO=base, VF_OUT=os.path.join(base, 'out'), VF_CACHE_S='0')
        if cells:
            env['VF_CELLS'] = cells
        rc_all = 0
        for c in checks:
            p = subprocess.run([os.path.join(ROOT, 'check'), c, '--tier', tier], env=env, capture_output=True, text=True)
            lines = [l for l in (p.stdout + p.stderr).splitlines() if l.startswith(('VIOLATION', 'HARNESS-ERROR', 'KNOWN', '  cell=')) or l.startswith(c + ' tier')]
            print('%s rc=%d' % (c, p.returncode))
            for l in lines:
                print('   ' + l[:400])
            rc_all = max(rc_all, p.returncode)
        return rc_all
    finally:
        shutil.rmtree(base, ignore_errors=True)


if __name__ == '__main__':
    sys.exit(main())
