#!/usr/bin/env python3
"""tools/seedregress.py [-j N] [seed ...]   -- regression over the seeded changes of /verif/seeded.

For every line of seeded/EXPECT.tsv (seed, the check of its own property, the cells that are expected to catch it) runs
tools/seedrun.py against a scratch copy of the package with the seed applied and prints DETECTED (exit 1 with a VIOLATION
line), MISSED (exit 0) or ERROR (anything else).  Exit status 0 iff every seed is DETECTED."""
import concurrent.futures
import os
import subprocess
import sys

ROOT = os.path.dirname(os.path.dirname(os.path.abspath(__file__)))


def one(row):
    seed, check, cells = row
    cmd = [sys.executable, os.path.join(ROOT, 'tools', 'seedrun.py'), os.path.join(ROOT, 'seeded', seed, 'patch.diff'), check]
    if cells:
        cmd += ['--cells', cells]
    p = subprocess.run(cmd, capture_output=True, text=True)
    out = p.stdout + p.stderr
    if p.returncode == 1 and 'VIOLATION property=' in out:
        verdict = 'DETECTED'
    elif p.returncode == 0:
        verdict = 'MISSED'
    else:
        verdict = 'ERROR rc=%d' % p.returncode
    first = [l.strip() for l in out.splitlines() if l.strip().startswith(('cell=', 'INCONCLUSIVE', 'HARNESS'))][:1]
    return seed, check, verdict, (first[0][:160] if first else '')


def main():
    args = sys.argv[1:]
    jobs = 2
    if '-j' in args:
        i = args.index('-j')
        jobs = int(args[i + 1])
        del args[i : i + 2]
    rows = []
    for line in open(os.path.join(ROOT, 'seeded', 'EXPECT.tsv')):
        if line.startswith('#') or not line.strip():
            continue
        parts = line.rstrip('\n').split('\t')
        parts += [''] * (3 - len(parts))
        if not args or parts[0] in args:
            rows.append(parts[:3])
    bad = 0
    with concurrent.futures.ThreadPoolExecutor(jobs) as ex:
        for seed, check, verdict, detail in ex.map(one, rows):
            print('%-10s %-4s %-12s %s' % (seed, check, verdict, detail), flush=True)
            bad += verdict != 'DETECTED'
    print('seeds=%d not-detected=%d' % (len(rows), bad))
    return 1 if bad else 0


if __name__ == '__main__':
    sys.exit(main())
