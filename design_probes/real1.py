import os, tempfile, shutil
from disk_objectstore import Container
d = tempfile.mkdtemp(dir='/tmp/probe')
c = Container(d); c.init_container(clear=True)
def nfd(): return len(os.listdir('/proc/self/fd'))
for r in range(3):
    for i in range(3): c.add_object(b'x%d-%d' % (r,i))
    b = nfd()
    c.pack_all_loose()
    print('fds before/after pack_all_loose', b, nfd())
b = nfd(); c.add_objects_to_pack([b'zzz']); print('direct', b, nfd())
c.close()
print('after close', nfd(), [os.readlink('/proc/self/fd/'+f) for f in os.listdir('/proc/self/fd') if os.path.exists('/proc/self/fd/'+f)])
shutil.rmtree(d)
