from p4 import *
def pack2_reach(s0: int, s1: int, target: int, clean: bool) -> int:
    """
    pre: 0 <= s0 <= 200000 and 1 <= s1 <= 200000 and 1 <= target <= 400000
    post: _ != 2
    """
    fs, db, c = new_world(target)
    k0 = put_loose(fs, c, 0, s0)
    k1 = put_loose(fs, c, 1, s1)
    c.pack_all_loose(clean_loose_per_pack=clean)
    return len([f for f in fs.files if '/packs/' in f])
