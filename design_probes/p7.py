from codec import *

def ref(pos, n, op, a):
    if op == 0:
        k = a if a >= 0 else n - pos
        k = min(k, max(0, n - pos))
        return pos + k, (pos, pos + k)
    if op == 1: return pos, pos
    if op == 2: return a, a
    return pos + a, pos + a

def zprog(n: int, h: int, t: int, r: int, before: int, after: int, op1: int, a1: int, op2: int, a2: int, op3: int, a3: int) -> bool:
    """
    pre: 0 <= n <= 40 and 1 <= h <= 3 and 1 <= t <= 3 and 1 <= r <= 3 and 0 <= before <= 3 and 0 <= after <= 3
    pre: 0 <= op1 <= 3 and 0 <= op2 <= 3 and 0 <= op3 <= 3 and -45 <= a1 <= 45 and -45 <= a2 <= 45 and -45 <= a3 <= 45
    post: _
    """
    content = Seg([(('obj', 0, n), 0, n)])
    z = ZStream(content, h, t, r)
    pack = PackFile(Seg([(('junk', 0), 0, before)]) + z.seg() + Seg([(('junk', 1), 0, after)]))
    s = ModelDecompresser(PackedObjectReader(pack, before, z.total))
    pos = 0
    for op, a in ((op1, a1), (op2, a2), (op3, a3)):
        npos, exp = ref(pos, n, op, a)
        if op >= 2 and not (0 <= npos <= n):
            return True       # out-of-range seeks: not covered in this probe
        if op == 0:
            got = s.read(a)
            if not (got == content[exp[0]:exp[1]]): return False
        elif op == 1:
            if s.tell() != exp: return False
        else:
            got = s.seek(a, op - 2)
            if got != exp: return False
        pos = npos
    return True
