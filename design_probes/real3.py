import tempfile, shutil
from disk_objectstore import Container
d = tempfile.mkdtemp(dir='/tmp/probe')
a = Container(d); a.init_container(clear=True)
b = Container(d)
k0 = a.add_object(b'zero')
a.pack_all_loose()
print('b sees k0', b.has_object(k0), sorted(b.list_all_objects()) == [k0])   # pins b's snapshot
k1 = a.add_object(b'one')           # acknowledged through handle a
a.pack_all_loose(); a.clean_storage()
print('b.list_all_objects has k1:', k1 in set(b.list_all_objects()))
print('b.count_objects:', b.count_objects())
print('b.has_object(k1):', b.has_object(k1))
print('b.list_all_objects has k1 after has_object:', k1 in set(b.list_all_objects()))
a.close(); b.close(); shutil.rmtree(d)
