from menv import *
from disk_objectstore.utils import ZlibLikeBaseStreamDecompresser, PackedObjectReader

class ZErr(Exception):
    pass

class ZStream:
    """abstract compressed stream of content `content` (Seg): header h, body 1 compressed byte -> r plain bytes, trailer t"""
    def __init__(self, content, h, t, r):
        self.content, self.h, self.t, self.r = content, h, t, r
        n = len(content)
        self.body = (n + r - 1) // r
        self.total = h + self.body + t
    def seg(self):
        return Seg([(self, 0, self.total)])

class ModelDecompressObj:
    def __init__(self):
        self.z = None
        self.c = 0      # compressed bytes consumed
        self.p = 0      # plain bytes produced
        self.unconsumed_tail = EMPTY
        self.unused_data = EMPTY
        self.eof = False
    def decompress(self, data, max_length=0):
        if not isinstance(data, Seg):
            if len(data) == 0:
                data = EMPTY
            else:
                raise DataDependence('concrete compressed data')
        if self.eof:
            self.unused_data = self.unused_data + data
            self.unconsumed_tail = EMPTY
            return EMPTY
        if len(data.ext) == 0:
            self.unconsumed_tail = EMPTY
            return EMPTY
        if len(data.ext) != 1:
            raise ZErr('corrupt')
        z, lo, hi = data.ext[0]
        if not isinstance(z, ZStream) or (self.z is not None and z is not self.z) or lo != self.c:
            raise ZErr('corrupt')
        self.z = z
        n = len(z.content)
        out_lo = self.p
        # consume byte ranges: header, body, trailer
        pos = lo
        limit = max_length if max_length > 0 else n + 1
        # header
        take = max(0, min(hi, z.h) - pos); pos += take
        # body
        room = limit - (self.p - out_lo)
        body_end = z.h + z.body
        if pos < body_end and pos < hi:
            want = min(hi, body_end) - pos
            can = min(want, room // z.r) if z.r > 1 else min(want, room)
            # produce
            newp = min(n, self.p + can * z.r)
            self.p = newp
            pos += can
            if can < want:
                self.c = pos
                self.unconsumed_tail = Seg([(z, pos, hi)])
                return z.content[out_lo:self.p]
        # trailer
        if pos >= body_end and pos < hi:
            if self.p != n:
                raise ZErr('corrupt')
            take = min(hi, z.total) - pos; pos += take
            if pos == z.total:
                self.eof = True
                if hi > pos:
                    self.unused_data = Seg([(z, pos, hi)])
        self.c = pos
        self.unconsumed_tail = EMPTY
        return z.content[out_lo:self.p]

class ModelDecompresser(ZlibLikeBaseStreamDecompresser):
    @property
    def decompressobj_class(self):
        return ModelDecompressObj
    @property
    def decompress_error(self):
        return ZErr

class PackFile:
    mode = 'rb'; closed = False
    def __init__(self, data): self.data, self.pos = data, 0
    def tell(self): return self.pos
    def seek(self, t, whence=0):
        if whence == 1: t = self.pos + t
        elif whence == 2: t = len(self.data) + t
        if t < 0: raise OSError(22, 'inval')
        self.pos = t; return t
    def read(self, n=-1):
        size = len(self.data)
        if n is None or n < 0: n = max(0, size - self.pos)
        n = min(n, max(0, size - self.pos))
        r = self.data[self.pos:self.pos+n]; self.pos += n; return r
