import menv
from menv import *

def pack2(s0: int, s1: int, target: int, clean: bool) -> bool:
    """
    pre: 0 <= s0 <= 200000 and 1 <= s1 <= 200000 and 1 <= target <= 400000
    post: _
    """
    fs, db, c = new_world(target)
    k0 = put_loose(fs, c, 0, s0)
    k1 = put_loose(fs, c, 1, s1)
    c.pack_all_loose(clean_loose_per_pack=clean)
    rows = db.versions[-1]
    if len(rows) != 2:
        return False
    for r in rows:
        i = 0 if r['hashkey'] in (KEYS[0], KEYS[5]) and r['size'] == s0 else 1
        sz = s0 if i == 0 else s1
        pack = fs.files[VROOT + '/packs/' + str(r['pack_id'])]
        got = pack.data[r['offset'] : r['offset'] + r['length']]
        if r['length'] != sz or r['size'] != sz:
            return False
        if sz and not (got == obj(i, sz)):
            return False
    # read back via the real reader
    out = c.get_objects_content([k0, k1])
    if not (out[k1] == obj(1, s1)):
        return False
    if s0 and not (out[k0] == obj(0, s0)):
        return False
    return True
