from codec import *

def produced(z, c):
    n = len(z.content)
    if c <= z.h: return 0
    return min(n, (min(c, z.h + z.body) - z.h) * z.r)

def inv(s, z, pack, before):
    d = s._decompressor
    n = len(z.content)
    if d.z is not None and d.z is not z: return False
    if not (0 <= d.c <= z.total): return False
    if d.p != produced(z, d.c): return False
    if d.eof != (d.c == z.total): return False
    if not (len(s._internal_buffer) == d.p - s._pos and 0 <= s._pos <= d.p): return False
    if not (s._internal_buffer == z.content[s._pos:d.p]): return False
    u = len(d.unconsumed_tail)
    if u and not (d.unconsumed_tail == Seg([(z, d.c, d.c + u)])): return False
    if pack.pos != before + d.c + u: return False
    return True

def zstep(n: int, h: int, t: int, r: int, before: int, after: int, c: int, u: int, pos: int, op: int, a: int) -> bool:
    """
    pre: 0 <= n <= 2000000 and 1 <= h <= 3 and 1 <= t <= 8 and 1 <= r <= 3 and 0 <= before <= 3 and 0 <= after <= 3
    pre: 0 <= c and 0 <= u and 0 <= pos
    pre: 0 <= op <= 3 and -2100000 <= a <= 2100000
    post: _
    """
    content = Seg([(('obj', 0, n), 0, n)])
    z = ZStream(content, h, t, r)
    if c + u > z.total: return True
    p = produced(z, c)
    if pos > p: return True
    pack = PackFile(Seg([(('junk', 0), 0, before)]) + z.seg() + Seg([(('junk', 1), 0, after)]))
    s = ModelDecompresser(PackedObjectReader(pack, before, z.total))
    # construct the state directly
    d = s._decompressor
    d.z = z if c > 0 else None
    d.c, d.p, d.eof = c, p, (c == z.total)
    d.unconsumed_tail = Seg([(z, c, c + u)])
    s._pos = pos
    s._internal_buffer = content[pos:p]
    pack.pos = before + c + u
    s._compressed_stream._pos = c + u
    if not inv(s, z, pack, before): return True
    if op == 0:
        k = a if a >= 0 else n - pos
        k = min(k, max(0, n - pos))
        got = s.read(a)
        if not (got == content[pos:pos + k]): return False
        if s.tell() != pos + k: return False
    elif op == 1:
        if s.tell() != pos: return False
    else:
        target = a if op == 2 else pos + a
        if not (0 <= target <= n): return True
        got = s.seek(a, op - 2)
        if got != target or s.tell() != target: return False
    return inv(s, z, pack, before)
