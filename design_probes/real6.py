import tempfile, shutil, os, sqlite3, subprocess
from disk_objectstore import Container
from disk_objectstore.backup_utils import _sqlite_backup
from pathlib import Path
d = tempfile.mkdtemp(dir='/tmp/probe'); dest = tempfile.mkdtemp(dir='/tmp/probe')
a = Container(d); a.init_container(clear=True)
r = Container(d)
keys = [a.add_object(b'obj%d' % i) for i in range(3)]
a.pack_all_loose()
print(r.has_objects(keys))   # reader handle keeps a connection (and a read snapshot) open
subprocess.run(['rsync','-a', d+'/loose', dest]); 
_sqlite_backup(Path(d)/'packs.idx', Path(dest)/'packs.idx')
subprocess.run(['rsync','-a', d+'/packs', dest])
k = a.add_object(b'late'*1000); a.pack_all_loose(); a.clean_storage()
print('wal size live', os.path.getsize(d+'/packs.idx-wal'))
subprocess.run(['rsync','-a','--exclude','loose','--exclude','packs.idx','--exclude','packs', d+'/', dest])
print(sorted(os.listdir(dest)), os.path.getsize(dest+'/packs.idx-wal'))
con = sqlite3.connect(dest+'/packs.idx'); print('rows seen in backup index:', con.execute('select count(*) from db_object').fetchall()); con.close()
b = Container(dest)
print(b.count_objects())
try:
    print('late in backup?', b.has_object(k)); print(len(b.get_object_content(k)))
except Exception as e: print('ERR', type(e).__name__, e)
try:
    print('valid', b.validate())
except Exception as e: print('validate ERR', type(e).__name__, e)
a.close(); b.close(); r.close(); shutil.rmtree(d); shutil.rmtree(dest)
