import os, tempfile, shutil, sqlite3
from disk_objectstore import Container
d = tempfile.mkdtemp(dir='/tmp/probe')
c = Container(d); c.init_container(clear=True)
A,B,C_ = b'A'*10, b'B'*7, b'C'*5
c.add_objects_to_pack([A])
keys = c.add_objects_to_pack([A, B, A, C_], no_holes=True, no_holes_read_twice=False)
print(keys)
con = sqlite3.connect(d+'/packs.idx')
rows = con.execute('select hashkey, pack_id, offset, length, size from db_object order by offset').fetchall()
pack = open(d+'/packs/0','rb').read()
print('pack bytes', pack, len(pack))
for r in rows: print(r[0][:8], r[1:], pack[r[2]:r[2]+r[3]])
for k,exp in zip(keys,[A,B,A,C_]):
    try:
        got = c.get_object_content(k)
    except Exception as e:
        got = repr(e)
    print(k[:8], got == exp, got)
print(c.validate())
print(c.get_total_size())
c.close(); shutil.rmtree(d)
