from typing import List
from codec2 import *

def zread(n: int, total: int, before: int, pos: int, c: int, u: int, a: int, tape: List[int]) -> bool:
    """
    pre: 0 <= n <= 2000000 and 2 <= total <= 2000000 and 0 <= before <= 2
    pre: 0 <= pos and 0 <= c and 0 <= u <= 524288
    pre: -1 <= a <= 2100000
    pre: len(tape) <= 12
    post: _
    """
    content = Seg([(('obj', 0, n), 0, n)])
    z = ZTok(content, total)
    if c + u > total: return True
    # state: consumed c, produced p (drawn from the tape so that any monotone relation is allowed)
    t = Tape(tape); NDDecompressObj.tape = t
    try:
        p = t.draw(pos, n)
        if c == 0 and p != 0: return True
        if c == total and p != n: return True
        pack = PackFile(Seg([(('junk', 0), 0, before)]) + Seg([(z, 0, total)]) + Seg([(('junk', 1), 0, 1)]))
        s = NDDecompresser(PackedObjectReader(pack, before, total))
        d = s._decompressor
        d.z = z if c > 0 else None
        d.c, d.p, d.eof = c, p, (c == total)
        d.unconsumed_tail = Seg([(z, c, c + u)]) if c < total else EMPTY
        if c == total and u: return True
        s._pos = pos
        s._internal_buffer = content[pos:p]
        pack.pos = before + c + u
        s._compressed_stream._pos = c + u
        k = a if a >= 0 else n - pos
        k = min(k, max(0, n - pos))
        got = s.read(a)
        return (got == content[pos:pos + k]) and s.tell() == pos + k
    except Vacuous:
        return True
