import menv
from menv import *

class Crash(BaseException):
    pass

def snapshot(fs, db, power_loss):
    files = {}
    for p, n in fs.files.items():
        files[p] = n.data[: n.synced] if power_loss else n.data
    return files, [dict(r) for r in db.versions[-1]]

def install_crash(fs, db, crash_at, power_loss, box):
    orig = fs.tick
    def tick(what):
        orig(what)
        if fs.step == crash_at:
            box.append(snapshot(fs, db, power_loss))
            raise Crash()
    fs.tick = tick

def check_image(files, rows, objs):
    """objs: {key: (oid, size)} that must survive; every row must point to complete bytes"""
    for key, (oid, size) in objs.items():
        ok = False
        lp = VROOT + '/loose/' + key[:2] + '/' + key[2:]
        if lp in files and files[lp] == obj(oid, size):
            ok = True
        for r in rows:
            if r['hashkey'] == key:
                pk = VROOT + '/packs/' + str(r['pack_id'])
                if pk in files and files[pk][r['offset'] : r['offset'] + r['length']] == obj(oid, size) and r['length'] == size:
                    ok = True
                else:
                    return False   # visible but torn
        if not ok:
            return False
    return True

def crash_pack(hole0: int, sp: int, hole1: int, s0: int, s1: int, target: int, clean: bool, crash_at: int, power_loss: bool) -> bool:
    
    fs, db, c = new_world(target)
    # pre-state: pack 0 = junk(hole0) + obj2(sp) + junk(hole1), row for obj2; loose obj0, obj1
    n = Node()
    n.data = Seg([(('junk', 0), 0, hole0)]) + obj(2, sp) + Seg([(('junk', 1), 0, hole1)])
    n.synced = len(n.data)
    fs.files[VROOT + '/packs/0'] = n
    db.versions[-1].append(dict(id=1, hashkey=KEYS[2], pack_id=0, offset=hole0, length=sp, size=sp, compressed=False))
    db.next_id = 2
    k0 = put_loose(fs, c, 0, s0)
    k1 = put_loose(fs, c, 1, s1)
    box = []
    install_crash(fs, db, crash_at, power_loss, box)
    try:
        c.pack_all_loose(clean_loose_per_pack=clean)
    except Crash:
        pass
    if not box:
        return True   # crash point beyond the end of the operation
    files, rows = box[0]
    return check_image(files, rows, {KEYS[0]: (0, s0), KEYS[1]: (1, s1), KEYS[2]: (2, sp)})
