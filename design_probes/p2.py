from typing import List, Tuple
from disk_objectstore.utils import PackedObjectReader

class Seg:
    """abstract bytes: the contiguous range [lo, hi) of the backing file"""
    def __init__(self, lo, hi):
        self.lo, self.hi = lo, hi
    def __len__(self):
        return self.hi - self.lo
    def __eq__(self, other):
        return isinstance(other, Seg) and ((len(self) == 0 and len(other) == 0) or (self.lo == other.lo and self.hi == other.hi))
    def __repr__(self):
        return f'Seg({self.lo},{self.hi})'

class ModelFile:
    mode = 'rb'
    closed = False
    def __init__(self, size):
        self.size = size
        self.pos = 0
    def seek(self, target, whence=0):
        if whence == 1: target = self.pos + target
        elif whence == 2: target = self.size + target
        if target < 0:
            raise OSError(22, 'Invalid argument')
        self.pos = target
        return self.pos
    def tell(self):
        return self.pos
    def read(self, n=-1):
        if n is None or n < 0:
            n = max(0, self.size - self.pos)
        n = min(n, max(0, self.size - self.pos))
        r = Seg(self.pos, self.pos + n)
        self.pos += n
        return r

def ref_step(pos, length, op, arg):
    """BytesIO semantics on object of given length; returns (newpos, result)"""
    if op == 0:  # read(arg)
        n = arg if arg >= 0 else length - pos
        n = min(n, max(0, length - pos))
        return pos + n, ('read', pos, pos + n)
    if op == 1:
        return pos, ('tell', pos)
    if op == 2:
        return arg, ('seek', arg)
    if op == 3:
        return pos + arg, ('seek', pos + arg)
    return length + arg, ('seek', length + arg)

def prog2(pack_size: int, offset: int, length: int, op1: int, a1: int, op2: int, a2: int) -> bool:
    """
    pre: 0 <= offset and 0 <= length and offset + length <= pack_size <= 64
    pre: 0 <= op1 <= 4 and 0 <= op2 <= 4 and -70 <= a1 <= 70 and -70 <= a2 <= 70
    post: _
    """
    f = ModelFile(pack_size)
    r = PackedObjectReader(f, offset, length)
    pos = 0
    for op, a in ((op1, a1), (op2, a2)):
        npos, exp = ref_step(pos, length, op, a)
        in_range = 0 <= npos <= length
        try:
            if op == 0:
                got = r.read(a)
                if not (got == Seg(offset + exp[1], offset + exp[2])):
                    return False
            elif op == 1:
                if r.tell() != exp[1]:
                    return False
            else:
                got = r.seek(a, op - 2)
                if in_range and got != exp[1]:
                    return False
                if not in_range:
                    npos = r.tell()   # clamped: whatever it says, must be in range
                    if not (0 <= npos <= length):
                        return False
        except (ValueError, OSError, AssertionError):
            if in_range:
                return False
            npos = pos   # rejected: position must be unchanged
            if r.tell() != pos:
                return False
        pos = npos
    return True
