import sys, time, json, importlib
import z3
from crosshair.core_and_libs import analyze_function, run_checkables
from crosshair.options import AnalysisOptionSet, AnalysisKind
from crosshair.options import DEFAULT_OPTIONS
import crosshair.core as core
import crosshair.statespace as ss

stats = dict(solver_checks=0, solver_s=0.0, paths=0, ignored=0, confirmed_paths=0, refuted_paths=0)
_orig_check = z3.Solver.check
def counted_check(self, *a):
    t = time.time(); r = _orig_check(self, *a); stats['solver_s'] += time.time() - t; stats['solver_checks'] += 1; return r
z3.Solver.check = counted_check
_orig_exit = core.ExceptionFilter.__exit__
def counted_exit(self, et, ev, tb):
    r = _orig_exit(self, et, ev, tb)
    if self.ignore and not (getattr(self, 'analysis', None) and self.analysis.verification_status is not None):
        stats['ignored'] += 1
    return r
core.ExceptionFilter.__exit__ = counted_exit
_orig_attempt = core.attempt_call
def counted_attempt(*a, **kw):
    stats['paths'] += 1
    return _orig_attempt(*a, **kw)
core.attempt_call = counted_attempt

mod = importlib.import_module(sys.argv[1]); fn = getattr(mod, sys.argv[2])
opts = AnalysisOptionSet(per_condition_timeout=float(sys.argv[3]), per_path_timeout=30.0, report_all=True, analysis_kind=[AnalysisKind.PEP316])
t = time.time()
msgs = list(run_checkables(analyze_function(fn, opts)))
out = dict(stats, wall_s=time.time() - t, messages=[(m.state.name, m.message) for m in msgs])
print(json.dumps(out, indent=1))
