from p5 import *
def crash_kill(hole0: int, sp: int, hole1: int, s0: int, s1: int, target: int, clean: bool, crash_at: int) -> bool:
    """
    pre: 0 <= hole0 <= 5 and 1 <= sp <= 100000 and 0 <= hole1 <= 5
    pre: 1 <= s0 <= 100000 and 1 <= s1 <= 100000 and 1 <= target <= 300000
    pre: 1 <= crash_at <= 60
    post: _
    """
    return crash_pack(hole0, sp, hole1, s0, s1, target, clean, crash_at, False)
def crash_power(hole0: int, sp: int, hole1: int, s0: int, s1: int, target: int, clean: bool, crash_at: int) -> bool:
    """
    pre: 0 <= hole0 <= 5 and 1 <= sp <= 100000 and 0 <= hole1 <= 5
    pre: 1 <= s0 <= 100000 and 1 <= s1 <= 100000 and 1 <= target <= 300000
    pre: 1 <= crash_at <= 60
    post: _
    """
    return crash_pack(hole0, sp, hole1, s0, s1, target, clean, crash_at, True)
