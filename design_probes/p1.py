from typing import List, Tuple
from disk_objectstore.utils import detect_where_sorted, Location

def _sorted_unique(xs: List[int]) -> bool:
    return all(xs[i] < xs[i+1] for i in range(len(xs)-1))

def merge_spec(left: List[int], right: List[int]) -> List[Tuple[int,int]]:
    """
    pre: len(left) <= 3 and len(right) <= 3
    pre: _sorted_unique(left) and _sorted_unique(right)
    post: _ == sorted([(x, (0 if x in right else -1)) for x in left] + [(x, 1) for x in right if x not in left])
    """
    return [(x, w.value) for x, w in detect_where_sorted(left, right)]

def merge_reach(left: List[int], right: List[int]) -> int:
    """
    pre: len(left) <= 3 and len(right) <= 3
    pre: _sorted_unique(left) and _sorted_unique(right)
    post: _ != 4
    """
    return len([(x, w.value) for x, w in detect_where_sorted(left, right)])
