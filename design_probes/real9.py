import io, zlib, random, os
from disk_objectstore.utils import ZlibStreamDecompresser
random.seed(1)
words = [bytes(random.choices(b'abcdefghijklmnopqrstuvwxyz', k=random.randint(3,9))) for _ in range(3000)]
text = b' '.join(random.choice(words) for _ in range(700000))
lowent = bytes(random.choices(b'ab', k=3_000_000))                # huffman-only-ish
skew = bytes(random.choices(range(256), weights=[1+ (i%7==0)*30 for i in range(256)], k=3_000_000))
class F(io.BytesIO):
    mode = 'rb'
for name, data in (('text', text), ('lowent', lowent), ('skew', skew)):
    for level in (1, 9):
        comp = zlib.compress(data, level)
        for big in (2_000_000, -1):
            bad = 0; first = None
            for trial in range(300):
                s = ZlibStreamDecompresser(F(comp)); pos = 0
                try:
                    for _ in range(trial + 1):
                        s.read(1); pos += 1
                    b = s.read(big)
                    exp = data[pos:] if big < 0 else data[pos:pos+big]
                    assert b == exp, 'WRONG DATA'
                except ValueError as e:
                    bad += 1
                    if first is None: first = trial
            print(name, 'level', level, 'ratio %.2f' % (len(data)/len(comp)), 'big', big, 'spurious ValueErrors', bad, 'first trial', first)
