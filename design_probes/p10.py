import menv
from menv import *
from codec import PackFile

class AHandle(menv.Handle):
    """CPython BufferedWriter over an O_APPEND descriptor: py_pos is what tell() reports, kernel offset is kpos"""
    def __init__(self, fs, path, mode, node):
        super().__init__(fs, path, mode, node)
        self.kpos = len(node.data) if 'a' in mode else 0
    def flush(self):
        if len(self.buf):
            self.fs.tick(('flush', self.name))
            if 'a' in self.mode:
                self.node.data = self.node.data + self.buf
                self.kpos = len(self.node.data)
            else:
                self.node.data = self.node.data[: self.kpos] + self.buf + self.node.data[self.kpos + len(self.buf):]
                self.kpos = self.kpos + len(self.buf)
            self.pos = self.pos + len(self.buf)       # BufferedWriter: abs_pos += written
            self.buf = EMPTY
    def seek(self, target, whence=0):
        self.flush()
        assert whence == 0
        self.pos = target; self.kpos = target
        return target
    def truncate(self, size=None):
        self.flush()
        if size is None:
            size = self.kpos                    # FileIO.truncate(None) uses lseek(fd, 0, SEEK_CUR)
        self.fs.tick(('truncate', self.name, size))
        self.node.data = self.node.data[:size]
        return size
menv.Handle = AHandle

def dedup(hole: int, s0: int, s1: int, s2: int, dup_first: bool, read_twice: bool) -> bool:
    """
    pre: 0 <= hole <= 3 and 1 <= s0 <= 70000 and 1 <= s1 <= 70000 and 1 <= s2 <= 70000
    post: _
    """
    fs, db, c = new_world(10**9)
    n = Node(); n.data = Seg([(('junk', 0), 0, hole)]) + obj(0, s0); n.synced = len(n.data)
    fs.files[VROOT + '/packs/0'] = n
    db.versions[-1].append(dict(id=1, hashkey=KEYS[0], pack_id=0, offset=hole, length=s0, size=s0, compressed=False))
    db.next_id = 2
    streams = [PackFile(obj(0, s0)), PackFile(obj(1, s1))] if dup_first else [PackFile(obj(1, s1)), PackFile(obj(0, s0))]
    streams.append(PackFile(obj(2, s2)))
    keys = c.add_streamed_objects_to_pack(streams, no_holes=True, no_holes_read_twice=read_twice)
    rows = db.versions[-1]
    if len(rows) != 3: return False
    pack = fs.files[VROOT + '/packs/0'].data
    want = {KEYS[0]: obj(0, s0), KEYS[1]: obj(1, s1), KEYS[2]: obj(2, s2)}
    total = hole
    for r in rows:
        if not (pack[r['offset']: r['offset'] + r['length']] == want[r['hashkey']]): return False
        total = total + r['length']
    return len(pack) == total      # no unreferenced bytes left behind
