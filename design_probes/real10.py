import tempfile, shutil
from disk_objectstore import Container
d1 = tempfile.mkdtemp(dir='/tmp/probe'); d2 = tempfile.mkdtemp(dir='/tmp/probe')
s = Container(d1); s.init_container(clear=True, hash_type='sha256')
t = Container(d2); t.init_container(clear=True, hash_type='sha1')
keys = [s.add_object(b'o%d' % i) for i in range(3)]
cb = lambda action, value: None
for kind, mk in (('list', lambda: list(keys)), ('generator', lambda: (k for k in keys))):
    for callback in (None, cb):
        t.init_container(clear=True, hash_type='sha1')
        m = t.import_objects(mk(), s, callback=callback)
        print(kind, 'callback' if callback else 'no-callback', 'mapping size', len(m), 'dest count', t.count_objects().packed)
s.close(); t.close(); shutil.rmtree(d1); shutil.rmtree(d2)
