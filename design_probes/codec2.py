"""Nondeterministic codec contract driven by an oracle tape (list of symbolic ints)."""
from menv import *
from disk_objectstore.utils import ZlibLikeBaseStreamDecompresser, PackedObjectReader
from codec import PackFile

class ZErr(Exception):
    pass

class Vacuous(BaseException):
    """the tape values do not satisfy the contract: discard the path"""

class Tape:
    def __init__(self, vals):
        self.vals, self.i = vals, 0
    def draw(self, lo, hi):
        if self.i >= len(self.vals):
            raise Vacuous()
        v = self.vals[self.i]; self.i += 1
        if not (lo <= v <= hi):
            raise Vacuous()
        return v

class ZTok:
    def __init__(self, content, total):
        self.content, self.total = content, total

class NDDecompressObj:
    tape = None
    def __init__(self):
        self.z = None; self.c = 0; self.p = 0
        self.unconsumed_tail = EMPTY; self.unused_data = EMPTY; self.eof = False
    def decompress(self, data, max_length=0):
        if not isinstance(data, Seg):
            if len(data) == 0: data = EMPTY
            else: raise DataDependence('concrete')
        if self.eof:
            self.unused_data = self.unused_data + data; self.unconsumed_tail = EMPTY; return EMPTY
        if len(data.ext) == 0:
            # zlib may still deliver pending output without input; contract: only if limit was hit before -> model: none pending
            self.unconsumed_tail = EMPTY; return EMPTY
        if len(data.ext) != 1: raise ZErr('corrupt')
        z, lo, hi = data.ext[0]
        if not isinstance(z, ZTok) or (self.z is not None and z is not self.z) or lo != self.c: raise ZErr('corrupt')
        self.z = z
        n = len(z.content)
        avail = min(hi, z.total) - lo
        k = self.tape.draw(0, avail)
        m = self.tape.draw(0, n - self.p)
        limited = max_length > 0 and m == max_length
        if max_length > 0 and m > max_length: raise Vacuous()
        if not limited and k != avail: raise Vacuous()          # all input consumed unless limited
        if (self.c + k == z.total) != (self.p + m == n and self.c + k == z.total): raise Vacuous()
        if self.c + k == z.total and self.p + m != n: raise Vacuous()   # end of stream => all output delivered
        if self.c + k == 0 and m != 0: raise Vacuous()
        if self.p + m == n and not limited and self.c + k != z.total and avail == z.total - lo: raise Vacuous()
        out = z.content[self.p:self.p + m]
        self.c += k; self.p += m
        self.eof = self.c == z.total
        rest_lo = lo + k
        if self.eof:
            self.unconsumed_tail = EMPTY
            self.unused_data = Seg([(z, rest_lo, hi)])
        else:
            self.unconsumed_tail = Seg([(z, rest_lo, hi)])
        return out

class NDDecompresser(ZlibLikeBaseStreamDecompresser):
    @property
    def decompressobj_class(self): return NDDecompressObj
    @property
    def decompress_error(self): return ZErr
