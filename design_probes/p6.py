from tworld import *

def reader2(s0: int, s1: int, tw1: int, tp0: int, tc0: int, tu0: int, tp1: int, tc1: int, tu1: int, pre_q: bool, mode: int) -> bool:
    """
    pre: 1 <= s0 <= 70000 and 1 <= s1 <= 70000
    pre: -5 <= tp0 < tc0 < tu0 <= 40 and -5 <= tp1 < tc1 < tu1 <= 40
    pre: tw1 <= 0 and tw1 < tp1
    pre: 0 <= mode <= 2
    post: _
    """
    # object 0 exists loose since before the start; object 1 acknowledged at tw1<=0; both get packed, committed, unlinked at symbolic times
    o0 = TObj(0, s0, -10, tp0, tc0, tu0, 0)
    o1 = TObj(1, s1, tw1 - 10, tp1, tc1, tu1, s0)
    w = TWorld([o0, o1])
    c = t_install(w)
    if pre_q:
        c.has_objects([KEYS[3]])   # an earlier query pins the handle's snapshot (long-open handle)
    if mode == 0:
        return c.has_objects([o0.key, o1.key]) == [True, True]
    if mode == 1:
        out = c.get_objects_content([o0.key, o1.key])
        return len(out) == 2 and out[o0.key] == o0.content and out[o1.key] == o1.content
    metas = dict(c.get_objects_meta([o0.key, o1.key], skip_if_missing=False))
    return metas[o0.key].size == s0 and metas[o1.key].size == s1
